"""C09 -- serving requests never touches files outside the cache and lock directories.
Decided as a chain of modular flow lemmas: every path argument of a file-system effect in
the storage modules is built only from path builders, configuration, numbers, hashes and
constants (C09.a); the builders only use safe components and dimensions only through
dimensions_part (C09.b); tile coordinates from requests are int()-converted and layer
names are only used as dictionary keys (C09.c); dimensions_part sanitises every
request-derived key and value before it becomes a directory name (C09.d); tile services
validate dimension values before use (C09.e); static file serving refuses dot segments
(C09.f).
Added in round 4: the directory of a cache follows the documented precedence and a relative
`filename` of the single-file backends is placed below it, decided by partial evaluation for sample
configurations (C09.j).
Added in round 5: the location methods of the cache configuration do not write into the shared
configuration (C09.k); provenance follows what is put into a local collection."""
import ast
import re

from ..engine import rule
from ..model import Undecided
from ..cfg import same, implied, dotted, call_name, is_call, simple_name, unparse, const_value, contains, enclosing, find_all
from ..flow import Canon, Defs, depends, expand, Prov, scoped_defs
from ..decide import table, ret_kind
from ..pathflow import PathFlow, effect_args, safe, BUILDERS
from ..util import resolve1, keyword, returns_of, calls_in, inside, order_key

NOT_DECIDED = 'symlinks planted inside the cache directory, OS path semantics, configuration values (trusted)'

PATH = 'mapproxy/cache/path.py'
STORAGE = ['mapproxy/cache/file.py', 'mapproxy/cache/compact.py', 'mapproxy/cache/mbtiles.py',
           'mapproxy/cache/geopackage.py', 'mapproxy/cache/legend.py', 'mapproxy/cache/base.py']
THOROUGH = ['mapproxy/cache/tile.py', 'mapproxy/cache/renderd.py', 'mapproxy/cache/path.py', 'mapproxy/util/fs.py',
            'mapproxy/util/lock.py', 'mapproxy/service/wms.py', 'mapproxy/service/tile.py', 'mapproxy/service/wmts.py',
            'mapproxy/service/kml.py', 'mapproxy/service/demo.py', 'mapproxy/service/base.py', 'mapproxy/layer.py',
            'mapproxy/source/wms.py', 'mapproxy/source/tile.py', 'mapproxy/client/http.py', 'mapproxy/client/wms.py',
            'mapproxy/client/tile.py', 'mapproxy/image/__init__.py', 'mapproxy/response.py', 'mapproxy/wsgiapp.py',
            'mapproxy/multiapp.py', 'mapproxy/request/base.py']


@rule('C09.a', floor=40)
def c09a(ctx):
    pf = PathFlow(ctx.repo)
    mods = STORAGE + (THOROUGH if ctx.thorough else [])
    for rel in mods:
        ctx.repo.mod(rel)
        for fn in sorted(ctx.repo.fns_in(rel + ':'), key=lambda f: f.qn):
            if '#' in fn.qn:
                continue
            counter = {}
            for c in sorted([x for x in fn.walk_all() if isinstance(x, ast.Call)], key=order_key):
                args = effect_args(c)
                if not args:
                    continue
                if simple_name(c) == 'ImageSource' and rel not in STORAGE:
                    continue
                for a in args:
                    if isinstance(a, ast.Constant) and not isinstance(a.value, str):
                        continue
                    labels = pf.classify(fn, a)
                    nm = call_name(c)
                    k = counter[nm] = counter.get(nm, 0) + 1
                    construct = '%s:%s#%d' % (fn.short, nm, k)
                    req = sorted(l for l in labels if l.startswith('REQ:'))
                    bad = sorted(l for l in labels if not l.startswith(('CONST', 'CONFIG', 'NUM', 'HASH', 'BUILDER:', 'SAN:')))
                    if rel in STORAGE:
                        ctx.check(not bad, construct, 'path argument %s of %s is built from %s only' % (
                            unparse(a)[:50], nm, sorted(labels)), fn, c,
                            fail='path argument %s of %s has provenance %s: not only path builders / configuration / '
                                 'numbers / hashes / constants' % (unparse(a)[:60], nm, bad))
                    else:
                        # whole-package sweep: request-derived provenance is a violation, unknown is listed
                        if req:
                            ctx.bad(construct, 'path argument %s of %s is request-derived: %s' % (unparse(a)[:60], nm, req), fn, c)
                        elif bad:
                            ctx.note('unclassified fs-effect %s %s: %s' % (fn.where(c), nm, bad))
                            ctx.ok(construct, 'no request-derived provenance (unclassified: %s)' % bad, fn, c)
                        else:
                            ctx.ok(construct, 'path argument of %s is built from %s only' % (nm, sorted(labels)), fn, c)


def _builder_components(fn):
    """expressions that become part of the path: os.path.join arguments and string concatenation operands of the
    value that is returned / stored in tile.location"""
    defs = Defs(fn.node)
    roots = [r.value for r in returns_of(fn.node) if r.value is not None]
    roots += [v for v, sel in defs.of('tile.location')]
    comps = []
    seen = set()

    def rec(e, d=0):
        if id(e) in seen or d > 8:
            return
        seen.add(id(e))
        if is_call(e, 'os.path.join', 'join') and isinstance(e.func, ast.Attribute) and unparse(e.func.value) in ('os.path',):
            for a in e.args:
                rec(a.value if isinstance(a, ast.Starred) else a, d + 1)
            return
        if isinstance(e, ast.BinOp) and isinstance(e.op, ast.Add):
            rec(e.left, d + 1)
            rec(e.right, d + 1)
            return
        if isinstance(e, (ast.Tuple, ast.List)):
            for x in e.elts:
                rec(x, d + 1)
            return
        if isinstance(e, ast.Call) and isinstance(e.func, ast.Name):
            # a module level namedtuple that carries the path next to other values: its fields, as a tuple display would
            t = fn.canon.as_tuple(e)
            if t is not None and t is not e:
                for x in t.elts:
                    rec(x, d + 1)
                return
        if isinstance(e, ast.IfExp):
            rec(e.body, d + 1)
            rec(e.orelse, d + 1)
            return
        if isinstance(e, (ast.Name, ast.Attribute)):
            key, ds = scoped_defs(e, defs)
            if ds and unparse(e) != 'tile.location':
                for v, sel in ds:
                    if sel is None or sel == 'aug':
                        rec(v, d + 1)
                    else:
                        comps.append(e)
                return
        comps.append(e)
    for r in roots:
        rec(r)
    return comps, defs


PATH_BUILDERS = ['tile_location_tc', 'tile_location_mp', 'tile_location_tms', 'tile_location_reverse_tms',
                 'tile_location_quadkey', 'tile_location_arcgiscache', 'level_location', 'level_location_tms',
                 'level_location_arcgiscache']


@rule('C09.b', floor=40)
def c09b(ctx):
    contracts = {'cache_dir': {'CONFIG'}, 'file_ext': {'CONFIG'}, 'dimensions': {'REQ:dimensions'},
                 'tile.coord': {'NUM'}, 'tile.location': {'BUILDER:tile.location'}, 'level': {'LEVEL'}, 'z': {'LEVEL'},
                 'self.cache_dir': {'CONFIG'}, 'self.file_ext': {'CONFIG'}, 'self.lock_dir': {'CONFIG'},
                 'self.lock_cache_id': {'HASH'}, 'color': {'NUM'}}
    summaries = {
        'dimensions_part': lambda p, c, a: {'BUILDER:dimensions_part'},
        'level_part': lambda p, c, a: {'BUILDER:level_part'} if set().union(*a) <= {'LEVEL', 'NUM', 'CONST'} else set().union(*a),
        'level_location': _level_location_summary,
        'ensure_directory': lambda p, c, a: {'CONST'},
    }
    targets = [(PATH + ':' + n) for n in PATH_BUILDERS] + [
        'mapproxy/cache/file.py:FileCache._single_color_tile_location',
        'mapproxy/cache/compact.py:CompactCacheBase._get_bundle_fname_and_offset',
        'mapproxy/cache/base.py:TileLocker.lock_filename',
    ]
    for qn in targets:
        fn = ctx.fn(qn)
        comps, defs = _builder_components(fn)
        c2 = dict(contracts)
        if fn.name in ('tile_location_tc', 'tile_location_mp', 'tile_location_tms', 'tile_location_reverse_tms',
                       'tile_location_quadkey', 'tile_location_arcgiscache', '_get_bundle_fname_and_offset'):
            c2.pop('z', None)    # here z is unpacked from the (integer) coordinate
            c2['tile_coord'] = {'NUM'}
        prov = Prov(fn.node, contracts=c2, summaries=summaries, repo=ctx.repo, mod=fn.mod)
        if not comps:
            raise Undecided('%s: no path components found' % qn)
        for i, e in enumerate(comps):
            labels = prov.of(e)
            labels = {('NUM' if l.startswith('PARAM:tile') else l) for l in labels}
            ok = all(l in ('CONFIG', 'CONST', 'NUM', 'HASH', 'LEVEL') or l.startswith('BUILDER:') for l in labels)
            ctx.check(ok, '%s:component%d' % (fn.short, i),
                      'path component %s has provenance %s' % (unparse(e)[:50], sorted(labels)), fn, e,
                      fail='path component %s has provenance %s: only configuration, constants, numbers, hashes, '
                           'level_part() and dimensions_part() may become part of a storage path' % (unparse(e)[:60], sorted(labels)))
    _filecache_delegation(ctx)
    # level_part passes a str level through unchanged (allowed by C09.c) and formats numbers
    fn = ctx.fn(PATH + ':level_part')
    rets = returns_of(fn.node)
    ok = bool(rets) and all(same(r.value, 'level') or (isinstance(r.value, ast.BinOp) and isinstance(r.value.op, ast.Mod)) for r in rets)
    ctx.check(ok, 'level_part:form', 'level_part returns the level itself (str) or a numeric format of it', fn)
    # dimensions reach a builder only through dimensions_part
    for n in PATH_BUILDERS:
        fn = ctx.fn(PATH + ':' + n)
        uses = [x for x in fn.walk() if isinstance(x, ast.Name) and x.id == 'dimensions' and isinstance(x.ctx, ast.Load)]
        ok = all(_is_arg_of(x, ('dimensions_part', 'level_location')) for x in uses)
        ctx.check(ok, '%s:dimensions-only-via-dimensions_part' % n,
                  'the dimensions parameter is only handed to dimensions_part()/level_location()', fn,
                  fail='the request-derived dimensions parameter is used directly in %s' % n)


def _filecache_delegation(ctx):
    """FileCache.tile_location / level_location hand only configuration to the layout functions"""
    for m, callee, nargs in (('tile_location', 'self._tile_location', 3), ('level_location', 'self._level_location', 2)):
        fn = ctx.fn('mapproxy/cache/file.py:FileCache.' + m)
        rets = returns_of(fn.node)
        ok = bool(rets)
        for r in rets:
            c = r.value
            ok = ok and is_call(c, callee) and len(c.args) >= nargs and same(c.args[1], 'self.cache_dir')
            if ok and m == 'tile_location':
                ok = same(c.args[2], 'self.file_ext') and same(c.args[0], 'tile')
            if ok:
                # dimensions only as the dimensions argument
                for i, a in enumerate(c.args):
                    if contains(a, lambda x: isinstance(x, ast.Name) and x.id == 'dimensions') and not (m == 'level_location' and i == 2):
                        ok = False
                for k in c.keywords:
                    if k.arg != 'dimensions' and contains(k.value, lambda x: isinstance(x, ast.Name) and x.id == 'dimensions'):
                        ok = False
        ctx.check(ok, 'FileCache.%s:delegation' % m,
                  '%s returns %s(<tile|level>, self.cache_dir, ...) and hands `dimensions` on only as the dimensions argument' % (m, callee),
                  fn, fail='FileCache.%s does not delegate with the configured cache_dir/file_ext, or uses the request-derived '
                  'dimensions outside the dimensions argument' % m)


def _level_location_summary(p, c, a):
    # level_location(level, cache_dir, dimensions): the dimensions argument is routed to dimensions_part() there
    labels = set()
    for i, x in enumerate(c.args):
        if i != 2:
            labels |= p.of(x)
    for k in c.keywords:
        if k.arg != 'dimensions':
            labels |= p.of(k.value)
    return {'BUILDER:level_location'} if all(l in ('CONFIG', 'CONST', 'NUM', 'HASH', 'LEVEL') for l in labels) else labels


def _is_arg_of(name_node, callees):
    par = getattr(name_node, '_parent', None)
    if isinstance(par, ast.keyword):
        par = getattr(par, '_parent', None)
    return isinstance(par, ast.Call) and simple_name(par) in callees


TILE_SETTERS = [
    ('mapproxy/request/tile.py:TileRequest._init_request', 3),
    ('mapproxy/request/wmts.py:WMTS100TileRequest.make_request', 3),
    ('mapproxy/request/wmts.py:WMTS100RestTileRequest.make_request', 3),
    ('mapproxy/request/wmts.py:WMTS100RestFeatureInfoRequest.make_request', 3),
    ('mapproxy/service/kml.py:KMLInitRequest.__init__', 3),
]


def _int_component(e):
    if isinstance(e, ast.Constant) and isinstance(e.value, int):
        return True
    return isinstance(e, ast.Call) and call_name(e) == 'int' and len(e.args) >= 1


@rule('C09.c', floor=7)
def c09c(ctx):
    # every assignment to .tile in the request classes (whole package sweep for the attribute)
    found = 0
    for rel in ('mapproxy/request/tile.py', 'mapproxy/request/wmts.py', 'mapproxy/service/kml.py', 'mapproxy/request/base.py',
                'mapproxy/request/wms/__init__.py', 'mapproxy/request/arcgis.py'):
        if rel not in ctx.repo.modules:
            continue
        for fn in sorted(ctx.repo.fns_in(rel + ':'), key=lambda f: f.qn):
            for st in fn.walk():
                if not isinstance(st, ast.Assign):
                    continue
                for t in st.targets:
                    if isinstance(t, ast.Attribute) and t.attr == 'tile' and isinstance(t.value, ast.Name) and t.value.id == 'self':
                        v = st.value
                        if isinstance(v, ast.Constant) and v.value is None:
                            continue
                        found += 1
                        ok = False
                        # closed form: components held in locals (`col = int(..); self.tile = (col, ..)`) count as what they are
                        v = Canon(fn).expr(v)
                        if isinstance(v, ast.Tuple):
                            ok = len(v.elts) == 3 and all(_int_component(e) for e in v.elts)
                        elif isinstance(v, ast.Call) and call_name(v) == 'tuple' and v.args and \
                                isinstance(v.args[0], (ast.ListComp, ast.GeneratorExp)):
                            ok = _int_component(v.args[0].elt)
                        ctx.check(ok, '%s:tile-components-int' % fn.short,
                                  'every component of the request tile coordinate is int(...) or an integer literal', fn, st,
                                  fail='the request tile coordinate %s is not built from int(...) conversions: request text '
                                       'can reach grid arithmetic and path formatting' % unparse(v)[:70])
    if found < 5:
        raise Undecided('only %d assignments to self.tile found in the request classes' % found)
    # layer names / matrix set names / _layer_spec only used as dictionary keys
    for qn in ('mapproxy/service/tile.py:TileServer._internal_layer', 'mapproxy/service/tile.py:TileServer._internal_dimension_layer'):
        fn = ctx.fn(qn)
        defs = Defs(fn.node)
        okall = True
        for x in fn.walk():
            if isinstance(x, ast.Attribute) and x.attr in ('layer',) and isinstance(x.value, ast.Name) and x.value.id == 'tile_request':
                okall = okall and _only_key_use(x, defs, fn)
        ctx.check(okall, fn.short + ':layer-name-is-key', 'the requested layer name is only used as a dictionary key of self.layers', fn)


def _only_key_use(x, defs, fn, _seen=None):
    """the expression containing x ends up as: `k in self.layers`, `self.layers[k]`, `self.layers.get(k)`, a local that
    is used that way, or an error message"""
    _seen = set() if _seen is None else _seen
    if id(x) in _seen:
        return True         # already being judged (a name rebuilt from itself: `name = name + ..`)
    _seen.add(id(x))
    top = x
    par = getattr(top, '_parent', None)
    while isinstance(par, (ast.BinOp, ast.Tuple)) or (isinstance(par, ast.Call) and call_name(par) == 'next' and par.args and par.args[0] is top):
        # next(<the candidates>, default): the first candidate itself
        top, par = par, getattr(par, '_parent', None)
    if isinstance(par, ast.Compare) and all(isinstance(o, (ast.Is, ast.IsNot)) for o in par.ops) and \
            all(isinstance(c, ast.Constant) and c.value is None for c in par.comparators):
        return True         # `found is None`: nothing of the text is used
    if isinstance(par, ast.Assign) and isinstance(par.targets[0], ast.Name):
        name = par.targets[0].id
        uses = [n for n in fn.walk() if isinstance(n, ast.Name) and n.id == name and isinstance(n.ctx, ast.Load)]
        return all(_only_key_use(u, defs, fn, _seen) for u in uses)
    if isinstance(par, (ast.GeneratorExp, ast.ListComp)) and par.elt is top:
        # the candidates derived from the name: judged where the sequence is consumed
        return _only_key_use(par, defs, fn, _seen)
    if isinstance(par, ast.For) and par.iter is top and isinstance(par.target, ast.Name):
        uses = [n for n in ast.walk(par) if isinstance(n, ast.Name) and n.id == par.target.id and isinstance(n.ctx, ast.Load)]
        return bool(uses) and all(_only_key_use(u, defs, fn, _seen) for u in uses)
    if isinstance(par, ast.comprehension) and par.iter is top and isinstance(par.target, ast.Name):
        comp = getattr(par, '_parent', None)
        uses = [n for n in ast.walk(comp) if isinstance(n, ast.Name) and n.id == par.target.id and isinstance(n.ctx, ast.Load)] if comp is not None else []
        return bool(uses) and all(_only_key_use(u, defs, fn, _seen) for u in uses)
    if isinstance(par, ast.Compare) and any(isinstance(o, ast.In) for o in par.ops):
        return True
    if isinstance(par, ast.Subscript) and par.slice is top:
        return True
    if isinstance(par, ast.Call) and simple_name(par) in ('get', 'RequestError'):
        return True
    return False


def _sanitiser_ok(expr, defs, fn, depth=4):
    """does `expr` pass through a recognised sanitiser?  replace-chain removing '/' and '\\\\' (or os.sep/os.altsep),
    re.sub with a negated whitelist class, or a helper function all of whose returns do."""
    if depth <= 0:
        return False
    if isinstance(expr, ast.Call):
        n = simple_name(expr)
        if n == 'sub' and len(expr.args) >= 3:
            pat = const_value(expr.args[0])
            repl = const_value(expr.args[1])
            if isinstance(pat, str) and isinstance(repl, str) and re.match(r'^\[\^', pat) and '/' not in pat.replace('\\/', '') \
                    and '\\\\' not in pat and '/' not in repl and '\\' not in repl:
                return True
        if n == 'replace' and isinstance(expr.func, ast.Attribute):
            removed, ok_repl = set(), True
            e = expr
            while isinstance(e, ast.Call) and simple_name(e) == 'replace' and isinstance(e.func, ast.Attribute):
                a0 = e.args[0] if e.args else None
                v = const_value(a0)
                if isinstance(v, str):
                    removed.add(v)
                elif a0 is not None and unparse(a0) in ('os.sep', 'os.altsep', 'os.path.sep', 'os.path.altsep'):
                    removed.add(unparse(a0).replace('.path', ''))
                r = const_value(e.args[1]) if len(e.args) > 1 else None
                if not isinstance(r, str) or '/' in r or '\\' in r:
                    ok_repl = False
                e = e.func.value
            if ok_repl and (({'/', '\\'} <= removed) or ({'os.sep', 'os.altsep'} <= removed)):
                return True
        # helper function of the same module
        q = fn.repo.resolve_name(fn.mod, expr.func)
        if q and q in fn.repo.funcs:
            h = fn.repo.funcs[q]
            return _helper_sanitises(h, depth - 1)
        if n == 'str' and expr.args:
            return _sanitiser_ok(expr.args[0], defs, fn, depth)
    if isinstance(expr, ast.Name):
        key, ds = scoped_defs(expr, defs)
        if ds:
            return all(_sanitiser_ok(v, defs, fn, depth - 1) for v, sel in ds if sel is None) and any(sel is None for v, sel in ds)
    return False


def _helper_sanitises(h, depth):
    """every return of helper h is its parameter after separators were replaced.  Recognised: replace-chain / re.sub as
    above, or a loop `for sep in (<seps>): value = value.replace(sep, <safe>)` over a literal tuple containing '/' and
    '\\\\'."""
    defs = Defs(h.node)
    rets = returns_of(h.node)
    if not rets:
        return False
    for r in rets:
        if _sanitiser_ok(r.value, defs, h, depth):
            continue
        # the chain of replacements held in a local that is re-bound step by step: its closed form
        try:
            closed = h.canon.expr(r.value)
        except Exception:       # noqa
            closed = None
        if closed is not None and not isinstance(closed, ast.Name) and _sanitiser_ok(closed, defs, h, depth):
            continue
        if not isinstance(r.value, ast.Name):
            return False
        name = r.value.id
        ok = False
        for st in h.walk():
            if isinstance(st, ast.For) and isinstance(st.iter, (ast.Tuple, ast.List)) and isinstance(st.target, ast.Name):
                seps = {const_value(e) if isinstance(e, ast.Constant) else unparse(e) for e in st.iter.elts}
                if not ({'/', '\\'} <= seps or {'os.sep', 'os.altsep'} <= seps):
                    continue
                for a in ast.walk(st):
                    if isinstance(a, ast.Assign) and isinstance(a.targets[0], ast.Name) and a.targets[0].id == name \
                            and is_call(a.value, name + '.replace') and len(a.value.args) == 2 \
                            and unparse(a.value.args[0]) == st.target.id:
                        rv = const_value(a.value.args[1])
                        if isinstance(rv, str) and '/' not in rv and '\\' not in rv:
                            # the replace may be guarded only by the truthiness of the separator itself
                            g = enclosing(a, ast.If)
                            if g is None or not inside(g, st) or unparse(g.test) == st.target.id:
                                ok = True
        if not ok:
            # the unrolled form: `name = name.replace(<sep>, <safe>)` statements that every path to the return executes
            # (a statement under `if '/':` is unconditional: the constant test is decided in the control-flow graph)
            g = h.cfg
            rn = g.node_of.get(id(r))
            removed = set()
            for a in h.walk():
                if isinstance(a, ast.Assign) and len(a.targets) == 1 and isinstance(a.targets[0], ast.Name) and a.targets[0].id == name \
                        and is_call(a.value, name + '.replace') and len(a.value.args) == 2 and id(a) in g.node_of and rn is not None \
                        and g.dominates(g.node_of[id(a)], rn):
                    rv = const_value(a.value.args[1])
                    if isinstance(rv, str) and '/' not in rv and '\\' not in rv:
                        a0 = a.value.args[0]
                        removed.add(const_value(a0) if isinstance(a0, ast.Constant) else unparse(a0))
            # nothing but the replaces (and the initial conversion of the parameter) may assign the name
            others = [a for a in h.walk() if isinstance(a, ast.Assign) and any(isinstance(t, ast.Name) and t.id == name for t in a.targets)
                      and not is_call(a.value, name + '.replace') and not (is_call(a.value, 'str') and len(a.value.args) == 1)]
            unsafe = [a for a in h.walk() if isinstance(a, ast.Assign) and is_call(a.value, name + '.replace') and
                      not (len(a.value.args) == 2 and isinstance(const_value(a.value.args[1]), str) and
                           '/' not in const_value(a.value.args[1]) and '\\' not in const_value(a.value.args[1]))]
            ok = {'/', '\\'} <= removed and not others and not unsafe
        if not ok:
            return False
    return True


@rule('C09.d', floor=2)
def c09d(ctx):
    fn = ctx.fn(PATH + ':dimensions_part')
    defs = Defs(fn.node)
    joins = [x for x in fn.walk_all() if is_call(x, 'os.path.join')]
    if not joins:
        raise Undecided('dimensions_part: no os.path.join')
    # components of each directory name: the expression mapped over the keys
    for j in joins:
        comps = []
        for a in j.args:
            a = a.value if isinstance(a, ast.Starred) else a
            # map(lambda k: <expr>, keys) | generator, possibly bound to a local first
            inner = resolve1(a, defs)
            while isinstance(inner, ast.Call) and simple_name(inner) in ('list', 'tuple'):
                inner = inner.args[0]
            if isinstance(inner, ast.Call) and simple_name(inner) == 'map' and isinstance(inner.args[0], ast.Lambda):
                comps.append(inner.args[0].body)
            elif isinstance(inner, (ast.GeneratorExp, ast.ListComp)):
                comps.append(inner.elt)
            else:
                comps.append(inner)
        for body in comps:
            # split key + sep + value
            parts = []

            def flat(e):
                if isinstance(e, ast.BinOp) and isinstance(e.op, ast.Add):
                    flat(e.left)
                    flat(e.right)
                elif isinstance(e, ast.JoinedStr):
                    for v in e.values:
                        parts.append(v.value if isinstance(v, ast.FormattedValue) else v)
                elif isinstance(e, ast.BinOp) and isinstance(e.op, ast.Mod) and isinstance(e.left, ast.Constant):
                    parts.append(e.left)
                    r = e.right
                    for x in (r.elts if isinstance(r, ast.Tuple) else [r]):
                        parts.append(x)
                elif isinstance(e, ast.Call) and isinstance(e.func, ast.Attribute) and e.func.attr == 'format' and \
                        isinstance(e.func.value, ast.Constant):
                    parts.append(e.func.value)
                    for x in e.args + [k.value for k in e.keywords]:
                        parts.append(x)
                else:
                    parts.append(e)
            flat(body)
            dyn = [p for p in parts if not isinstance(p, ast.Constant)]
            consts = [p.value for p in parts if isinstance(p, ast.Constant) and isinstance(p.value, str)]
            ctx.check(all('/' not in c and '\\' not in c for c in consts), 'dimensions_part:literal-parts',
                      'literal parts of a dimension directory name contain no separator', fn, body)
            nonempty_sep = any(c for c in consts)
            for k, p in enumerate(dyn):
                role = 'key' if k == 0 else 'value'
                ok = _sanitiser_ok(p, defs, fn)
                ctx.check(ok, 'dimensions_part:%s-sanitised' % role,
                          'the dimension %s %s passes a separator-removing sanitiser before os.path.join' % (role, unparse(p)[:40]),
                          fn, p, fail='the request-derived dimension %s %s becomes (part of) a directory name without a '
                          'sanitiser that removes "/" and "\\\\": TIME=a/../../x escapes the cache directory' % (role, unparse(p)[:50]))
            ctx.check(len(dyn) >= 2 and nonempty_sep, 'dimensions_part:key-sep-value',
                      'a directory name is key + non-empty literal + value (never "." or "..")', fn, body)


@rule('C09.e', floor=7)
def c09e(ctx):
    for m in ('render', 'get_info'):
        fn = ctx.fn('mapproxy/service/tile.py:TileLayer.' + m)
        g = fn.cfg
        defs = Defs(fn.node)
        chk = g.find(lambda x: is_call(x, 'self.checked_dimensions'))
        loads = g.find(lambda x: is_call(x, 'load_tile_coord', 'load_tile_coords'))
        if not loads:
            ctx.bad('TileLayer.%s:load' % m, 'no tile_manager.load_tile_coord call found', fn)
            continue
        for n, l in loads:
            ok = bool(chk) and any(g.dominates(c, n) and c != n for c, _ in chk)
            ctx.check(ok, 'TileLayer.%s:checked-dimensions-dominate-load' % m,
                      'checked_dimensions(request) dominates tile_manager.load_tile_coord', fn, l,
                      fail='the tile is loaded without validating the requested dimension values first')
            d = keyword(l, 'dimensions')
            ok = d is not None and depends(d, lambda x: is_call(x, 'self.checked_dimensions'), defs) and \
                not contains(d, lambda x: isinstance(x, ast.Attribute) and x.attr == 'dimensions')
            ok = ok and _only_def_is(d, defs, lambda v: is_call(v, 'self.checked_dimensions'))
            ctx.check(ok, 'TileLayer.%s:validated-dimensions-passed' % m,
                      'the dimensions passed to the tile manager are the result of checked_dimensions()', fn, l,
                      fail='the dimensions passed to the tile manager (%s) are not the validated ones' % (unparse(d) if d is not None else 'none'))
    fn = ctx.fn('mapproxy/service/tile.py:TileLayer.checked_dimensions')
    loop = [s for s in fn.walk() if isinstance(s, ast.For)]
    if not loop:
        raise Undecided('checked_dimensions: loop not found')

    def cls(node):
        if node is None:
            return 'fall'
        if isinstance(node, ast.Raise):
            return 'raise'
        return type(node).__name__

    # roles: D = the dict that is returned, R = the requested value (request.dimensions.get(<key>)), V = the configured values
    fdefs = Defs(fn.node)
    D = ([unparse(r.value) for r in returns_of(fn.node) if isinstance(r.value, ast.Name)] or ['dimensions'])[0]
    R = ([k for k, ds in fdefs.defs.items() if any(is_call(v, 'get') and 'dimensions' in unparse(v.func) and sel is None for v, sel in ds)] or ['value'])[0]
    V = unparse(loop[0].target.elts[1]) if isinstance(loop[0].target, ast.Tuple) and len(loop[0].target.elts) == 2 else 'values'
    carriers = {unparse(st.value) for st in fn.walk() if isinstance(st, ast.Assign) and isinstance(st.targets[0], ast.Subscript) and
                unparse(st.targets[0].value) == D and isinstance(st.value, ast.Name)} - {R}

    def ev(st):
        if not isinstance(st, ast.Assign):
            return None
        t = st.targets[0]
        into = (isinstance(t, ast.Subscript) and unparse(t.value) == D) or (isinstance(t, ast.Name) and t.id in carriers)
        if into:
            v = unparse(st.value)
            if v in carriers:
                return None            # the value was classified where the carrier was bound
            return 'accept' if v == R else 'default' if v == V + '.default' else 'other:' + v
        return None
    tab = ctx.rows(table(loop[0].body, cls, event_of=ev))
    a_ins = tab.find_atoms('%s in %s' % (R, V))
    if len(a_ins) != 1:
        ctx.bad('TileLayer.checked_dimensions:table', 'no membership test `value in values`: a requested dimension value is '
                'accepted without being one of the configured values', fn)
        return
    a_in = a_ins[0]
    bad = []
    for asg, out, events in tab.assignments():
        if asg[a_in]:
            want = ('fall', ('accept',))
        else:
            others = [a for a in tab.atoms if a != a_in]
            # not value  or  value == 'default'
            a_nv = [a for a in others if a == R]
            a_def = [a for a in others if 'default' in a]
            isdef = (a_nv and not asg[a_nv[0]]) or (a_def and asg[a_def[0]])
            want = ('fall', ('default',)) if isdef else ('raise', ())
        if (out, events) != want:
            bad.append((asg, out, events, want))
    ctx.check(not bad, 'TileLayer.checked_dimensions:table',
              'accept <=> value in values; default <=> no value or "default"; everything else raises (%d rows)' % len(tab.rows), fn,
              fail='checked_dimensions decision table differs from accept/default/raise: %s' % (bad[:2],))
    rets = returns_of(fn.node)
    ok = bool(rets) and all(unparse(r.value) == D for r in rets) and \
        any(isinstance(s, ast.Assign) and unparse(s.targets[0]) == D and isinstance(s.value, ast.Dict) and not s.value.keys for s in fn.walk())
    ctx.check(ok, 'TileLayer.checked_dimensions:fresh-dict', 'the result is a fresh dict filled only by the loop', fn)
    ok = all(unparse(l.iter).startswith('self.dimensions') for l in loop)
    ctx.check(ok, 'TileLayer.checked_dimensions:configured-keys', 'only configured dimension names are looked up', fn)


def _only_def_is(expr, defs, pred):
    if isinstance(expr, ast.Name):
        ds = defs.of(expr.id)
        return bool(ds) and all(sel is None and pred(v) for v, sel in ds)
    return pred(expr)


@rule('C09.f', floor=3)
def c09f(ctx):
    fn = ctx.fn('mapproxy/service/demo.py:DemoServer.handle')
    g = fn.cfg
    sites = g.find(lambda x: is_call(x, 'static_filename', 'open'))
    sites = [(n, x) for n, x in sites if is_call(x, 'static_filename') or (x.args and same(x.args[0], 'filename'))]
    if not sites:
        raise Undecided('DemoServer.handle: static file sites not found')
    for n, x in sites:
        ok = g.guarded(n, lambda at: at.op == 'in' and const_value(at.left) == '..' and 'path' in unparse(at.right), False)
        ctx.check(ok, 'DemoServer.handle:%s-after-dotdot-check' % simple_name(x),
                  "%s only runs when '..' is not in the request path" % simple_name(x), fn, x,
                  fail="%s is reachable for a request path containing '..': files outside the static directory can be read" % simple_name(x))
    fn = ctx.fn('mapproxy/multiapp.py:DirectoryConfLoader.filename_from_app_name')
    rets = returns_of(fn.node)
    ok = bool(rets) and all(is_call(r.value, 'os.path.join') and same(r.value.args[0], 'self.base_dir') and
                            contains(r.value.args[1], lambda y: same(y, 'self.suffix')) for r in rets)
    ctx.check(ok, 'DirectoryConfLoader.filename_from_app_name:form', 'config file = base_dir / (app name + configured suffix)', fn)
    h = ctx.fn('mapproxy/multiapp.py:MultiMapProxy.handle')
    defs = Defs(h.node)
    ok = all(is_call(v, 'req.pop_path') for v, sel in defs.of('app_name')) and bool(defs.of('app_name'))
    ctx.check(ok, 'MultiMapProxy.handle:one-segment', 'the app name is exactly one path segment (pop_path)', h)


@rule('C09.g', floor=1)
def c09g(ctx):
    """links between tiles stay inside the cache directory wherever it is mounted: a single-colour tile symlink is created with a
    target *relative* to the link (os.path.relpath(target, dirname(link))), never with the absolute path of the moment"""
    import itertools
    from ..flow import Canon
    from ..util import call_targets
    fn = ctx.fn('mapproxy/cache/file.py:FileCache._store_single_color_tile')
    g = fn.cfg
    defs = Defs(fn.node)
    sites = [(n, x) for n, x in g.find(lambda x: isinstance(x, ast.Call)) if any(t.endswith('symlink') for t in call_targets(x, defs))]
    if not sites:
        ctx.ok('FileCache._store_single_color_tile:no-symlink', 'no symbolic links are created', fn)
        return
    flags = sorted({at.text for s, d, test, pol in g.branch_edges() for at, p in implied(test, pol) if 'link_single_color_images' in at.text})
    for n, x in sites:
        ok, seen = True, 0
        for vals in itertools.product([True, False], repeat=len(flags)):
            cf = Canon(fn, assume=dict(zip(flags, vals)))
            if n in cf.infeasible:
                continue
            callee = unparse(cf.expr(x.func))
            if not callee.endswith('symlink'):
                continue
            seen += 1
            tgt = cf.expr(x.args[0]) if x.args else None
            rel = is_call(tgt, 'os.path.relpath', 'relpath') and len(tgt.args) == 2 and is_call(tgt.args[1], 'os.path.dirname', 'dirname') and \
                len(x.args) > 1 and unparse(cf.expr(tgt.args[1].args[0])) == unparse(cf.expr(x.args[1]))
            ok = ok and rel
        ctx.check(ok and seen > 0, 'FileCache._store_single_color_tile:symlink-target-relative',
                  'os.symlink(relpath(<shared file>, dirname(<link>)), <link>): the link resolves inside the cache directory after a move or copy', fn, x,
                  fail='the symbolic link is created with an absolute target: after the cache directory is copied or mounted elsewhere '
                       'tile reads follow the link to the old location, outside the configured cache directory')


@rule('C09.h', floor=2)
def c09h(ctx):
    """the temporary file of an atomic store lives next to its final location (inside the cache directory), not in the system temp
    directory (shared rule C06.b: temp path = final path + suffix, created exclusively there)"""
    from ..engine import run_property
    sub = run_property(ctx.repo, 'C06', ctx.tier, only={'C06.b'})
    for er in sub.errors:
        raise Undecided('shared rule %s: %s' % er)
    for o in sub.obs:
        if o.construct.split(':')[-1] in ('temp-name', 'excl-create', 'rename-direction', 'rename'):
            (ctx.ok if o.status == 'ok' else ctx.bad)('%s:%s' % (o.rule, o.construct), o.msg, o.where)
    ctx.stats['functions'] |= sub.stats['functions']


PATH_OPTIONS = {'cache.base_dir', 'cache.lock_dir', 'cache.tile_lock_dir', 'cache_dir', 'mapserver.working_dir', 'mapserver.binary', 'http.ssl_ca_certs'}


@rule('C09.i', floor=8)
def c09i(ctx):
    """relative directories of the configuration are anchored at the directory of the configuration file, not at whatever working
    directory the server process happens to have: every path option is read with GlobalConfiguration.get_path (never with the raw
    get_value), and the base directory handed to the configuration is absolute"""
    L = 'mapproxy/config/loader.py'
    n = 0
    for fn in sorted(ctx.repo.fns_in(L + ':'), key=lambda f: f.qn):
        if fn.short in ('GlobalConfiguration.get_path', 'GlobalConfiguration.get_value'):
            continue
        for x in fn.walk():
            if not (isinstance(x, ast.Call) and isinstance(x.func, ast.Attribute) and x.func.attr in ('get_value', 'get_path') and x.args):
                continue
            key = const_value(x.args[0])
            if not isinstance(key, str) or not (key in PATH_OPTIONS or key.endswith('_dir') or key.endswith('.directory')):
                continue
            n += 1
            k = sum(1 for o in ctx.obs if o.construct.startswith('%s:path-option-%s' % (fn.short, key)))
            ctx.check(x.func.attr == 'get_path', '%s:path-option-%s%s' % (fn.short, key, k or ''),
                      'the path option %s is read with get_path (relative values are anchored at the configuration directory)' % key, fn, x,
                      fail='the path option %s is read with get_value: a relative directory is used relative to the working directory of the '
                           'process, files are created outside the configured directory' % key)
    if n < 6:
        raise Undecided('only %d reads of path options found in the configuration loader' % n)
    lc = ctx.fn(L + ':load_configuration')
    pcs = [x for x in lc.walk() if is_call(x, 'ProxyConfiguration')]
    ok = bool(pcs)
    for x in pcs:
        v = keyword(x, 'conf_base_dir', 1)
        form = lc.canon.expr(v) if v is not None else None
        ok = ok and form is not None and is_call(form, 'os.path.abspath', 'os.path.realpath', 'abspath', 'realpath')
    ctx.check(ok, 'load_configuration:absolute-base-dir', 'the base directory of the configuration is made absolute when the configuration is loaded', lc,
              fail='the configuration base directory is not made absolute: with a relative configuration file name every relative cache / lock '
                   'directory follows the working directory of the process')
    gp = ctx.fn(L + ':GlobalConfiguration.get_path')
    ok = any(is_call(x, 'self.abspath') for x in gp.walk())
    ab = ctx.fn(L + ':GlobalConfiguration.abspath')
    ok = ok and any(is_call(x, 'os.path.join') and x.args and 'conf_base_dir' in unparse(x.args[0]) for x in ab.walk())
    ctx.check(ok, 'GlobalConfiguration.get_path:anchors', 'get_path joins the value with the configuration base directory', gp)


@rule('C09.j', floor=8)
def c09j(ctx):
    """tile data is written below the directory configured *for that cache*: CacheConfiguration.cache_dir honours the documented
    precedence -- `cache.directory` of the cache, else the cache's own `cache_dir`, else globals.cache.base_dir -- and a `filename`
    of the single-file backends (mbtiles, geopackage) that is a plain relative name, with or without sub directories, is placed
    below that directory; only the explicit `./name` spelling means "next to the configuration file".  Decided by partial
    evaluation: the functions are specialised for sample configurations and the statement that remains is inspected"""
    L = 'mapproxy/config/loader.py:CacheConfiguration.'
    cd = ctx.fn(L + 'cache_dir')
    DIRECTORY = "self.conf.get('cache', {}).get('directory')"
    samples = [({DIRECTORY: 'dir_option', "self.conf.get('cache_dir')": None}, 'directory'),
               ({DIRECTORY: 'dir_option', "self.conf.get('cache_dir')": 'own_option'}, 'directory'),
               ({DIRECTORY: None, "self.conf.get('cache_dir')": 'own_option'}, 'own-or-global'),
               ({DIRECTORY: None, "self.conf.get('cache_dir')": None}, 'own-or-global')]
    for bind, want in samples:
        sp = ctx.repo.specialise(cd, bind)
        rets = [r.value for r in returns_of(sp.node) if r.value is not None]
        got = []
        for v in rets:
            if is_call(v, 'self.context.globals.abspath') and v.args and const_value(v.args[0]) == 'dir_option':
                got.append('directory')
            elif is_call(v, 'self.context.globals.get_path') and len(v.args) >= 2 and const_value(v.args[0]) == 'cache_dir' and \
                    unparse(v.args[1]) == 'self.conf' and const_value(keyword(v, 'global_key', 2)) == 'cache.base_dir':
                got.append('own-or-global')
            else:
                got.append('other: ' + unparse(v)[:60])
        label = 'directory=%s,cache_dir=%s' % ('set' if bind[DIRECTORY] else 'unset', 'set' if bind["self.conf.get('cache_dir')"] else 'unset')
        ctx.check(got == [want], 'CacheConfiguration.cache_dir:precedence[%s]' % label,
                  'with %s the cache directory is %s' % (label, 'abspath(cache.directory)' if want == 'directory' else
                                                         "get_path('cache_dir', conf, global_key='cache.base_dir')"), cd,
                  fail='with %s cache_dir() returns %s: the cache is created in another directory than the one configured for it' % (label, got))
    for m, var, key in (('_mbtiles_cache', 'mbfile_path', "self.conf['cache'].get('filename')"),
                        ('_geopackage_cache', 'gpkg_file_path', "self.conf['cache'].get('filename')")):
        fn = ctx.fn(L + m)
        for sample, want in (('tiles.db', 'cache-dir'), ('sub/tiles.db', 'cache-dir'), ('a/b/tiles.db', 'cache-dir'), ('./tiles.db', 'config-dir')):
            sp = ctx.repo.specialise(fn, {key: sample, 'os.sep': '/', 'os.path.sep': '/'})
            vals = [sp.canon.expr(st.value) for st in sp.walk() if isinstance(st, ast.Assign) and any(isinstance(t, ast.Name) and t.id == var for t in st.targets)]
            got = []
            for v in vals:
                if is_call(v, 'os.path.join') and len(v.args) == 2 and is_call(v.args[0], 'self.cache_dir') and const_value(v.args[1]) == sample:
                    got.append('cache-dir')
                elif is_call(v, 'self.context.globals.abspath') and v.args and const_value(v.args[0]) == sample:
                    got.append('config-dir')
                else:
                    got.append('other: ' + unparse(v)[:60])
            ctx.check(got == [want], 'CacheConfiguration.%s:filename[%s]' % (m, sample),
                      'filename %r is placed %s' % (sample, 'below cache_dir()' if want == 'cache-dir' else 'relative to the configuration file'), fn,
                      fail='filename %r resolves to %s: the database is created outside the directory configured for the cache' % (sample, got))


@rule('C09.k', floor=8)
def c09k(ctx):
    """every cache reads and writes under its own directory: the directory is computed from the configuration each time, nothing is
    written back into it.  The option blocks of the configuration are shared objects (a YAML anchor / merge key hands the same mapping
    to several caches): a default stored with `conf['cache'].setdefault('directory', <dir of this cache>)` is the explicit directory
    of the next cache that shares the block.  No method of CacheConfiguration stores into self.conf or calls a mutating method on it"""
    cls = ctx.repo.cls('mapproxy/config/loader.py:CacheConfiguration')
    MUT = ('setdefault', 'update', 'pop', 'popitem', 'clear', '__setitem__', '__delitem__')
    n = 0
    for fn in sorted(ctx.repo.fns_in('mapproxy/config/loader.py:CacheConfiguration.'), key=lambda f: f.qn):
        if fn.qn.count('.') != 2 or fn.name == '__init__':          # (methods, not nested functions)
            continue
        # the methods that work out where a cache keeps its files and locks
        if not (re.match(r'_\w+_cache$', fn.name) or fn.name in ('cache_dir', 'lock_dir', '_tile_cache', 'caches')):
            continue
        defs = Defs(fn.node)

        def roots_at_conf(e, depth=3):
            while isinstance(e, (ast.Attribute, ast.Subscript, ast.Call)):
                if isinstance(e, ast.Attribute) and unparse(e) == 'self.conf':
                    return True
                if isinstance(e, ast.Call):
                    # conf.get('cache', {}) hands out the shared mapping itself
                    if isinstance(e.func, ast.Attribute) and e.func.attr == 'get':
                        e = e.func.value
                        continue
                    return False
                e = e.value
            if isinstance(e, ast.Name) and depth > 0 and e.id not in ('self',):
                return any(sel is None and roots_at_conf(v, depth - 1) for v, sel in defs.of(e.id))
            return False
        bad = []
        for x in fn.walk():
            if isinstance(x, ast.Subscript) and isinstance(x.ctx, (ast.Store, ast.Del)) and roots_at_conf(x.value):
                bad.append(unparse(x))
            elif isinstance(x, ast.Call) and isinstance(x.func, ast.Attribute) and x.func.attr in MUT and roots_at_conf(x.func.value):
                bad.append(unparse(x)[:60])
        n += 1
        ctx.check(not bad, '%s:configuration-not-written' % fn.short, 'the method only reads self.conf', fn,
                  fail='%s writes into the (shared) configuration mapping: %s -- a cache that shares the option block inherits the value '
                       'computed for this cache' % (fn.short, '; '.join(bad)[:160]))
    if n < 8:
        raise Undecided('only %d location methods of CacheConfiguration found' % n)


@rule('C09.k', floor=2)
def c09k(ctx):
    """tile locks live in the tile lock directory of their cache: every TileLocker the configuration loader builds (the one of the
    tile manager and the one handed to the renderd tile creator) gets its directory from CacheConfiguration.lock_dir() -- the
    `tile_lock_dir` option, by default <cache dir>/tile_locks.  `cache.lock_dir` is a different option (the directory of the *source*
    locks, by default next to the configuration file): with it a request for an uncached tile creates lock files in a directory that
    is configured neither for the cache nor for its tile locks"""
    fn = ctx.fn('mapproxy/config/loader.py:CacheConfiguration.caches')
    cf = Canon(fn)
    made = [x for x in fn.walk() if is_call(x, 'TileLocker')]
    if len(made) < 2:
        raise Undecided('CacheConfiguration.caches: %d TileLocker constructions found (2 expected)' % len(made))
    for k, x in enumerate(made):
        v = keyword(x, 'lock_dir', 0)
        form = cf.expr(v) if v is not None else None
        ok = form is not None and is_call(form, 'self.lock_dir')
        ctx.check(ok, 'CacheConfiguration.caches:tile-locker-%d-in-tile-lock-dir' % k, 'TileLocker(self.lock_dir(), ...)', fn, x,
                  fail='a tile locker is built with the directory %s instead of the tile lock directory of the cache (self.lock_dir())'
                       % (unparse(form)[:60] if form is not None else '?'))
    ld = ctx.fn('mapproxy/config/loader.py:CacheConfiguration.lock_dir')
    reads = [const_value(x.args[0]) for x in ld.walk() if isinstance(x, ast.Call) and isinstance(x.func, ast.Attribute) and
             x.func.attr in ('get_path', 'get_value') and x.args]
    ctx.check(reads == ['cache.tile_lock_dir'], 'CacheConfiguration.lock_dir:reads-tile_lock_dir', 'the tile lock directory is the tile_lock_dir option', ld,
              fail='CacheConfiguration.lock_dir reads %s' % reads)
