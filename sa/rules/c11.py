"""C11 -- seeding creates every selected tile, nothing else, and survives interruption.
Decided: progress is stored atomically and names a subtree that is not finished yet (it is
reported before the sub-tile loop of that subtree), the stored value is the current
progress identifier (C11.a); the skip rule is strict -- a subtree is skipped only if it lies
strictly before the stored identifier, the walk recurses unless already_processed() inside
step_down, step_down pushes before and pops after the subtree (C11.b); nothing is dropped
silently in the walk: the only exits that bypass the hand-off to the worker pool are "no
intersection", "level not selected", "duplicate in the de-dup window" and "nothing left after
the all / uncached / stale filter" (C11.c); the selection predicates -- sub tiles are kept iff
all_subtiles or the task intersects them, CONTAINS/INTERSECTS/NONE are distinct with NONE
falsy, the walk starts from the coverage extent in the grid SRS, sub boxes are limited by the
component-wise intersection (C11.d).
Added in round 4: the coverage keeps its holes when it is transformed (C11.j, shared C17.i); the
progress key of a seed task names its levels (C11.k).
Added in round 5: MultiCoverage only hands the rectangle on (C11.l); rescaling caches are seeded
tile by tile (C11.m).
Added in round 7: a dry run neither writes nor removes the progress file -- the script builds a read-only
store from --dry-run and the store's file effects are guarded by the flag (C11.n, repair D51)."""
import ast

from ..engine import rule
from ..model import Undecided
from ..cfg import same, same_args, dotted, call_name, is_call, simple_name, unparse, const_value, contains, enclosing
from ..flow import Canon, Defs, depends, try_const
from ..decide import table, ret_kind
from ..util import keyword, returns_of, calls_in, inside, order_key

NOT_DECIDED = ('geometric completeness over irregular pyramids, numerics of the coverage intersection, what workers do '
               'with tiles that were queued when the process died')

S = 'mapproxy/seed/seeder.py'
U = 'mapproxy/seed/util.py'


@rule('C11.a', floor=6)
def c11a(ctx):
    lp = ctx.fn(U + ':ProgressLog.log_progress')
    g = lp.cfg
    adds = g.find(lambda x: is_call(x, 'self.progress_store.add'))
    writes = g.find(lambda x: is_call(x, 'self.progress_store.write'))
    ok = len(adds) == 1 and len(writes) == 1 and g.dominates(adds[0][0], writes[0][0])
    if ok:
        a = adds[0][1]
        ok = same(a.args[0], 'self.current_task_id') and is_call(a.args[1], 'progress.current_progress_identifier')
    ctx.check(ok, 'ProgressLog.log_progress:stores-identifier', 'the store receives (task id, progress.current_progress_identifier()) and is written right after', lp,
              fail='log_progress does not store the current progress identifier of the running task')
    ws = ctx.fn(U + ':ProgressStore.write')
    ok = any(is_call(x, 'write_atomic') and same(x.args[0], 'self.filename') for x in ws.walk())
    ctx.check(ok, 'ProgressStore.write:atomic', 'the progress file is replaced atomically', ws,
              fail='the progress file is written in place: an interruption while writing leaves an unreadable progress file')
    ld = ctx.fn(U + ':ProgressStore.load')
    ok = any(isinstance(h, ast.ExceptHandler) and 'UnpicklingError' in unparse(h.type) for h in ld.walk() if isinstance(h, ast.ExceptHandler) and h.type is not None)
    ctx.check(ok, 'ProgressStore.load:tolerates-garbage', 'an unreadable progress file is ignored (seeding starts from the beginning)', ld)
    wk = ctx.fn(S + ':TileWalker._walk')
    g = wk.cfg
    loops = [s for s in wk.node.body if isinstance(s, ast.For)]
    if not loops:
        raise Undecided('_walk: sub-tile loop not found')
    loop = loops[0]
    ln = g.node_of[id(loop)]
    reps = [(n, x) for n, x in g.find(lambda x: is_call(x, 'self.report_progress')) if not inside(x, loop)]
    # (how often progress is reported -- which levels -- is a tuning choice; what matters is that it happens before the subtree)
    main = [(n, x) for n, x in reps if not g.guarded(n, lambda at: at.mentions(lambda y: is_call(y, 'self.seed_progress.running')), False)]
    ok = bool(main) and all(g.stmt[n].lineno < loop.lineno and g.reaches_avoiding(n, ln) for n, x in main)
    ctx.check(ok, 'TileWalker._walk:report-before-subtree', 'progress is reported before the sub-tile loop of the subtree, i.e. the stored identifier names an unfinished subtree',
              wk, fail='progress is reported after (part of) the subtree was walked: a resumed run skips work that was never done')
    inloop = [x for x in wk.walk() if is_call(x, 'self.report_progress') and inside(x, loop)]
    ctx.check(not inloop, 'TileWalker._walk:no-report-inside-loop', 'no progress is reported from inside the sub-tile loop', wk)
    w = ctx.fn(S + ':TileWalker.walk')
    g = w.cfg
    reps = g.find(lambda x: is_call(x, 'self.report_progress'))
    walks = g.find(lambda x: is_call(x, 'self._walk'))
    ok = bool(reps) and bool(walks) and all(g.stmt[n].lineno > walks[0][1].lineno for n, x in reps)
    ctx.check(ok, 'TileWalker.walk:final-report', 'the final progress is reported after the walk', w)
    cp = ctx.fn(S + ':SeedProgress.current_progress_identifier')
    rets = returns_of(cp.node)
    g = cp.cfg
    ok = len(rets) == 2
    for r in rets:
        n = g.node_of[id(r)]
        if same(r.value, 'self.old_level_progresses'):
            ok = ok and enclosing(r, ast.If) is not None
        else:
            ok = ok and cp.ctext(r.value) in ('self.level_progresses[:]', 'list(self.level_progresses)', 'self.level_progresses.copy()')
    ctx.check(ok, 'SeedProgress.current_progress_identifier:value', 'the identifier is a copy of the current path, or the old one while still skipping', cp,
              fail='the stored identifier is not (a copy of) the current DFS path')


@rule('C11.b', floor=5)
def c11b(ctx):
    fn = ctx.fn(S + ':SeedProgress.can_skip')
    loops = [s for s in fn.node.body if isinstance(s, ast.For)]
    if not loops:
        raise Undecided('can_skip: loop not found')
    pro = [s for s in fn.node.body if s.lineno < loops[0].lineno]
    tab = ctx.rows(table(pro, ret_kind))
    a_c = [a for a in tab.atoms if 'current_progress' in a and 'None' in a]
    a_o = [a for a in tab.atoms if 'old_progress' in a and 'None' in a]
    a_e = [a for a in tab.atoms if 'old_progress' in a and '[]' in a]
    ok = len(a_c) == len(a_o) == len(a_e) == 1
    if ok:
        for asg, out, _ in tab.assignments():
            want = 'return False' if asg[a_c[0]] or asg[a_o[0]] else 'return True' if asg[a_e[0]] else 'fall'
            ok = ok and out == want
    ctx.check(ok, 'SeedProgress.can_skip:prologue', 'None -> False; an empty old progress -> True (everything was finished)', fn)
    ov, cv = [unparse(e) for e in loops[0].target.elts] if isinstance(loops[0].target, ast.Tuple) else ('?', '?')
    tab = ctx.rows(table(loops[0].body, ret_kind))
    a_on = [a for a in tab.atoms if a.replace(' ', '') in ('None==%s' % ov, '%s==None' % ov)]
    a_cn = [a for a in tab.atoms if a.replace(' ', '') in ('None==%s' % cv, '%s==None' % cv)]
    a_lt = [a for a in tab.atoms if a == '%s < %s' % (ov, cv)]
    a_gt = [a for a in tab.atoms if a == '%s < %s' % (cv, ov)]
    ok = all(len(x) == 1 for x in (a_on, a_cn, a_lt, a_gt))
    bad = []
    if ok:
        for asg, out, _ in tab.assignments():
            if asg[a_lt[0]] and asg[a_gt[0]]:
                continue
            if asg[a_on[0]] or asg[a_cn[0]]:
                want = 'return False'
            elif asg[a_lt[0]]:
                want = 'return False'
            elif asg[a_gt[0]]:
                want = 'return True'
            else:
                want = 'fall'
            if out != want:
                bad.append((asg, out))
    ctx.check(ok and not bad, 'SeedProgress.can_skip:loop-table',
              'first differing pair decides: old > current -> skip, old < current -> do not skip, exhausted -> do not skip; equal pairs continue (%d rows)' % len(tab.rows),
              fn, fail='can_skip is not strict (with >= the interrupted subtree itself is skipped): %s' % (bad[:2] or tab.atoms))
    last = fn.node.body[-1]
    ctx.check(isinstance(last, ast.Return) and const_value(last.value, 1) is False, 'SeedProgress.can_skip:equal-not-skipped',
              'identical identifiers are not skipped (the interrupted subtree is walked again)', fn,
              fail='an identifier equal to the stored one is skipped: the subtree that was interrupted is never finished')
    zl = [x for x in fn.walk() if is_call(x, 'zip_longest')]
    ok = bool(zl) and same_args(zl[0].args, ['old_progress', 'current_progress'])
    ctx.check(ok, 'SeedProgress.can_skip:pairs', 'pairs are (old, current) in that order', fn)
    ap = ctx.fn(S + ':SeedProgress.already_processed')
    ok = any(is_call(x, 'self.can_skip') and same_args(x.args, ['self.old_level_progresses', 'self.level_progresses']) for x in ap.walk())
    ctx.check(ok, 'SeedProgress.already_processed:args', 'already_processed = can_skip(old identifier, current path)', ap)
    wk = ctx.fn(S + ':TileWalker._walk')
    g = wk.cfg
    rec = [(n, x) for n, x in g.find(lambda x: is_call(x, 'self._walk'))]
    ok = bool(rec)
    for n, x in rec:
        w = enclosing(x, ast.With)
        ok = ok and w is not None and any(is_call(it.context_expr, 'self.seed_progress.step_down') for it in w.items)
        ok = ok and g.guarded(n, lambda at: at.mentions(lambda y: is_call(y, 'self.seed_progress.already_processed')), False)
        if ok:
            sd = [it.context_expr for it in w.items][0]
            ok = same(sd.args[0], 'i') and same(sd.args[1], 'total_subtiles')
            # the already_processed test is inside the with
            tests = [s for s in w.body if isinstance(s, ast.If) and contains(s.test, lambda y: is_call(y, 'self.seed_progress.already_processed'))]
            ok = ok and bool(tests)
    ctx.check(ok, 'TileWalker._walk:recurse-unless-processed', 'the walk recurses inside step_down(i, total) unless already_processed()', wk,
              fail='the recursion is not guarded by already_processed() evaluated inside step_down(i, total_subtiles)')
    sd = ctx.fn(S + ':SeedProgress.step_down')
    body = sd.node.body
    yi = [k for k, s in enumerate(body) if isinstance(s, ast.Expr) and isinstance(s.value, ast.Yield)]
    ok = len(yi) == 1
    if ok:
        before = ast.Module(body=body[:yi[0]], type_ignores=[])
        after = ast.Module(body=body[yi[0] + 1:], type_ignores=[])
        ok = contains(before, lambda x: is_call(x, 'self.level_progresses.append') and same(x.args[0], '(i, subtiles)')) and \
            contains(before, lambda x: isinstance(x, ast.AugAssign) and unparse(x.target) == 'self.level_progresses_level' and isinstance(x.op, ast.Add)) and \
            contains(after, lambda x: isinstance(x, ast.AugAssign) and unparse(x.target) == 'self.level_progresses_level' and isinstance(x.op, ast.Sub)) and \
            contains(before, lambda x: isinstance(x, ast.Assign) and unparse(x.targets[0]) == 'self.level_progresses' and 'self.level_progresses_level' in unparse(x.value))
    ctx.check(ok, 'SeedProgress.step_down:push-pop', 'step_down truncates to the current depth, pushes (i, subtiles) before the subtree and restores the depth after it', sd,
              fail='step_down does not pair push (before yield) and pop (after yield): the identifier does not describe the DFS path')


@rule('C11.c', floor=4)
def c11c(ctx):
    wk = ctx.fn(S + ':TileWalker._walk')
    loops = [s for s in wk.node.body if isinstance(s, ast.For)]
    if not loops:
        raise Undecided('_walk: sub-tile loop not found')
    loop = loops[0]

    def ev(st):
        if isinstance(st, ast.Expr) and is_call(st.value, 'self.worker_pool.process'):
            return 'process'
        return None

    def cls(node):
        if node is None:
            return 'next'
        if isinstance(node, ast.Continue):
            return 'next'
        return type(node).__name__
    tab = ctx.rows(table(loop.body, cls, event_of=ev))
    A = tab.atoms
    a_none = [a for a in A if 'subtile' in a and 'None' in a]
    a_proc = [a for a in A if a == 'process']
    a_dup = [a for a in A if ' in self.seeded_tiles' in a]
    a_ht = [a for a in A if a == 'handle_tiles']
    ok = all(len(x) == 1 for x in (a_none, a_proc, a_dup, a_ht))
    bad = []
    exits = set()
    if ok:
        for asg, out, events in tab.assignments():
            exits.add(out)
            want = (not asg[a_none[0]]) and asg[a_proc[0]] and (not asg[a_dup[0]]) and asg[a_ht[0]]
            if ('process' in events) != want:
                bad.append((asg, events))
    ctx.check(ok and not bad and exits <= {'next'}, 'TileWalker._walk:hand-off-table',
              'a sub tile is handed to the worker pool iff it intersects, its level is selected, it is not a duplicate and tiles remain '
              'after the filter; the loop has no other exit (%d rows)' % len(tab.rows), wk,
              fail='the sub-tile loop skips the hand-off for another reason (or leaves the loop early): %s %s' % (
                  sorted(exits - {'next'}), bad[:1] if ok else A))
    # the filter: all > uncached > stale
    defs = Defs(wk.node)

    def ev2(st):
        if isinstance(st, ast.Assign) and unparse(st.targets[0]) == 'handle_tiles' and isinstance(st.value, ast.ListComp):
            conds = ' and '.join(unparse(i) for gen in st.value.generators for i in gen.ifs)
            cv = unparse(st.value.generators[0].target)       # the comprehension variable, whatever it is called
            return 'all' if conds.replace(' ', '') == cv + 'isnotNone' else \
                'uncached' if 'not self.tile_mgr.is_cached(%s)' % cv in conds and 'is not None' in conds \
                else 'stale' if 'self.tile_mgr.is_stale(%s)' % cv in conds and 'is not None' in conds else 'other:' + conds
        return None
    filt = [s for s in loop.body if isinstance(s, ast.If) and same(s.test, 'self.handle_all')]
    ok = bool(filt)
    if ok:
        tab = ctx.rows(table([filt[0]], lambda n: 'x', event_of=ev2))
        ha = [a for a in tab.atoms if a == 'self.handle_all'][0]
        hu = [a for a in tab.atoms if a == 'self.handle_uncached']
        hs = [a for a in tab.atoms if a == 'self.handle_stale']
        ok = len(hu) == 1 and len(hs) == 1
        if ok:
            for asg, out, events in tab.assignments():
                want = ('all',) if asg[ha] else ('uncached',) if asg[hu[0]] else ('stale',) if asg[hs[0]] else ()
                ok = ok and events == want
    ctx.check(ok, 'TileWalker._walk:filter-precedence', 'tiles are filtered by all, else not-cached, else stale; None tiles are always dropped', wk,
              fail='the handle_all / handle_uncached / handle_stale filter is not `all > not is_cached > is_stale`')
    pr = [x for x in wk.walk() if is_call(x, 'self.worker_pool.process')]
    ok = bool(pr) and all(same(x.args[0], 'handle_tiles') for x in pr)
    ctx.check(ok, 'TileWalker._walk:hands-filtered-tiles', 'the worker pool receives the filtered tile list', wk)
    # process flag: level selected
    sets = [s for s in wk.walk() if isinstance(s, ast.Assign) and unparse(s.targets[0]) == 'process' and const_value(s.value) is True]
    g = wk.cfg
    ok = bool(sets) and all(g.guarded(g.node_of[id(s)], lambda at: at.op == 'in' and same(at.left, 'current_level') and same(at.right, 'levels'), True) for s in sets)
    ctx.check(ok, 'TileWalker._walk:process-iff-level-selected', 'tiles of a level are processed iff the level is one of the task levels', wk)
    wp = ctx.fn(S + ':TileWorkerPool.process')
    g = wp.cfg
    puts = g.find(lambda x: is_call(x, 'self.tiles_queue.put'))
    ok = len(puts) == 1 and same(puts[0][1].args[0], 'tiles')
    # every path to a normal return completed the put (its non-exception edge) -- except the dry-run return.  Path-sensitive:
    # a loop flag (`while not queued`) and break/else forms are the same thing here
    if ok:
        from ..cfg import entails_any
        pn = puts[0][0]
        done = [(pn, d) for d in g.succ[pn] if (pn, d) not in g.exc_edges]
        dry = lambda at: at.op is None and same(at.expr, 'self.dry_run')
        seen = g.reachable_ps(0, skip_edges=done, skip=lambda s_, d_, struct, pol: entails_any(struct, pol, [(dry, True)]))
        ok = g.EXIT not in seen
    ctx.check(ok, 'TileWorkerPool.process:retry-until-queued', 'the retry loop is only left after the tiles were queued (or by SeedInterrupted)', wp,
              fail='process() can return although the tiles were not put into the worker queue')
    sw = ctx.fn(S + ':TileSeedWorker.work_loop')
    ok = any(is_call(x, 'exp_backoff') and same(x.args[0], 'self.tile_mgr.load_tile_coords') and unparse(keyword(x, 'args')) == '(tiles,)' for x in sw.walk())
    ctx.check(ok, 'TileSeedWorker.work_loop:creates', 'the seed worker loads/creates exactly the tiles it received', sw)


@rule('C11.d', floor=7)
def c11d(ctx):
    fs = ctx.fn(S + ':TileWalker._filter_subtiles')
    loops = [s for s in fs.node.body if isinstance(s, ast.For)]
    if not loops:
        raise Undecided('_filter_subtiles: loop not found')

    def cls(node):
        if isinstance(node, ast.Expr) and isinstance(node.value, ast.Yield):
            v = node.value.value
            return 'none' if isinstance(v, ast.Tuple) and all(const_value(e, 1) is None for e in v.elts) else 'tile'
        return 'fall' if node is None else type(node).__name__

    def ev(st):
        if isinstance(st, ast.Assign) and unparse(st.targets[0]) == 'intersection':
            return 'contains' if same(st.value, 'CONTAINS') else 'task' if is_call(st.value, 'self.task.intersects') else 'other'
        return None
    tab = ctx.rows(table(loops[0].body, cls, event_of=ev))
    a_n = [a for a in tab.atoms if 'subtile' in a and 'None' in a]
    a_all = [a for a in tab.atoms if a == 'all_subtiles']
    a_i = [a for a in tab.atoms if a == 'intersection']
    ok = len(a_n) == len(a_all) == len(a_i) == 1
    bad = []
    if ok:
        for asg, out, events in tab.assignments():
            if asg[a_n[0]]:
                want = ('none', ())
            else:
                e = ('contains',) if asg[a_all[0]] else ('task',)
                want = ('tile' if asg[a_i[0]] else 'none', e)
            if (out, events) != want:
                bad.append((asg, out, events))
    ctx.check(ok and not bad, 'TileWalker._filter_subtiles:table', 'a sub tile is kept iff all_subtiles or task.intersects(bbox) is truthy', fs,
              fail='_filter_subtiles drops an intersecting sub tile or keeps a disjoint one: %s' % bad[:2])
    sb = [s for s in fs.walk() if isinstance(s, ast.Assign) and unparse(s.targets[0]) == 'sub_bbox']
    ok = bool(sb) and all(same(s.value, 'self.grid.meta_tile(subtile).bbox') for s in sb)
    ctx.check(ok, 'TileWalker._filter_subtiles:meta-tile-bbox', 'the tested box is the (meta) tile bbox of the sub tile', fs)
    ys = [x for x in fs.walk() if isinstance(x, ast.Yield) and isinstance(x.value, ast.Tuple) and same(x.value.elts[0], 'subtile')]
    ok = bool(ys) and all([unparse(e) for e in y.value.elts] == ['subtile', 'sub_bbox', 'intersection'] for y in ys)
    ctx.check(ok, 'TileWalker._filter_subtiles:yield-triple', 'kept entries are (subtile, sub_bbox, intersection)', fs)
    for cname in ('SeedTask', 'CleanupTask'):
        f = ctx.fn('%s:%s.intersects' % (S, cname))
        tab = ctx.rows(table(f.node.body, ret_kind))
        a_c = [a for a in tab.atoms if '.contains(' in a]
        a_i = [a for a in tab.atoms if '.intersects(' in a]
        ok = len(a_c) == 1 and len(a_i) == 1
        if ok:
            for asg, out, _ in tab.assignments():
                want = 'return CONTAINS' if asg[a_c[0]] else 'return INTERSECTS' if asg[a_i[0]] else 'return NONE'
                ok = ok and out == want
            for a in (a_c[0], a_i[0]):
                c = tab.atom_objs[a].expr
                ok = ok and same(c.func.value, 'self.coverage') and [unparse(x) for x in c.args] == ['bbox', 'self.grid.srs']
        ctx.check(ok, '%s.intersects:table' % cname, 'CONTAINS if the coverage contains the box, INTERSECTS if it intersects, else NONE (box in the grid SRS)', f,
                  fail='%s.intersects does not classify contains > intersects > none' % cname)
    m = ctx.repo.mod(S)
    vals = {n: try_const(ast.Name(id=n), ctx.repo, m) for n in ('NONE', 'CONTAINS', 'INTERSECTS')}
    ok = vals['NONE'] == 0 and vals['CONTAINS'] not in (0, None) and vals['INTERSECTS'] not in (0, None) and vals['CONTAINS'] != vals['INTERSECTS']
    ctx.check(ok, 'seeder:intersection-constants', 'NONE is falsy, CONTAINS and INTERSECTS are truthy and distinct (%s)' % vals, (S, 42),
              fail='intersection constants %s: NONE must be falsy and the other two truthy and distinct' % vals)
    w = ctx.fn(S + ':TileWalker.walk')
    defs = Defs(w.node)
    bb = [v for v, sel in defs.of('bbox')]
    ok = len(bb) == 1 and same(bb[0], 'self.task.coverage.extent.bbox_for(self.tile_mgr.grid.srs)')
    wk = [x for x in w.walk() if is_call(x, 'self._walk')]
    ok = ok and bool(wk) and same(wk[0].args[0], 'bbox') and same(wk[0].args[1], 'self.task.levels')
    ctx.check(ok, 'TileWalker.walk:start-box', 'the walk starts with the coverage extent in the grid SRS and the task levels', w)
    wlk = ctx.fn(S + ':TileWalker._walk')
    sets = [s for s in wlk.walk() if isinstance(s, ast.Assign) and unparse(s.targets[0]) == 'all_subtiles' and isinstance(enclosing(s, ast.For), ast.For)]
    g = wlk.cfg
    ok = bool(sets)
    for s in sets:
        n = g.node_of[id(s)]
        c = g.guarded(n, lambda at: at.op == '==' and 'intersection' in at.text and 'CONTAINS' in at.text, True)
        ok = ok and (const_value(s.value) is True) == c
    ctx.check(ok, 'TileWalker._walk:all-subtiles-iff-contains', 'coverage tests are skipped below a sub tile only if the coverage CONTAINS it', wlk,
              fail='all_subtiles is set for sub tiles that merely intersect the coverage: tiles outside the coverage are seeded')
    ls = ctx.fn(U + ':limit_sub_bbox')
    rets = returns_of(ls.node)
    defs = Defs(ls.node)
    ok = len(rets) == 1 and isinstance(rets[0].value, ast.Tuple) and len(rets[0].value.elts) == 4
    if ok:
        for k, e in enumerate(rets[0].value.elts):
            v = e
            if isinstance(e, ast.Name) and defs.single(e.id):
                v = defs.single(e.id)[0]
            fnm = 'max' if k < 2 else 'min'
            ok = ok and is_call(v, fnm) and sorted(unparse(a) for a in v.args) == sorted(['bbox[%d]' % k, 'sub_bbox[%d]' % k])
    ctx.check(ok, 'limit_sub_bbox:intersection', 'limit_sub_bbox is the component-wise intersection (max, max, min, min with equal indices)', ls,
              fail='limit_sub_bbox is not the component-wise max/max/min/min intersection')
    ca = [x for x in wlk.walk() if is_call(x, 'limit_sub_bbox')]
    ok = bool(ca) and same_args(ca[0].args, ['cur_bbox', 'sub_bbox'])
    ctx.check(ok, 'TileWalker._walk:limits-sub-box', 'the box handed down is limit_sub_bbox(cur_bbox, sub_bbox)', wlk)


@rule('C11.e', floor=2)
def c11e(ctx):
    wk = ctx.fn(S + ':TileWalker._walk')
    rec = [x for x in wk.walk() if is_call(x, 'self._walk')]
    ok = bool(rec)
    for x in rec:
        cl = keyword(x, 'current_level', 2)
        from ..flow import affine
        a = affine(cl) if cl is not None else None
        ok = ok and a is not None and a.get('current_level') == 1 and a.get('', 0) == 1 and same(x.args[0], 'sub_bbox') and same(x.args[1], 'levels')
        ok = ok and unparse(keyword(x, 'all_subtiles', 3)) == 'all_subtiles'
    ctx.check(ok, 'TileWalker._walk:recursion-arguments', 'the walk descends with the limited sub box, the remaining levels and current_level + 1', wk,
              fail='the recursion does not go to the next level with the sub box of the sub tile')
    defs = Defs(wk.node)
    lv = [s for s in wk.walk() if isinstance(s, ast.Assign) and unparse(s.targets[0]) == 'levels']
    ok = bool(lv) and all(same(s.value, 'levels[1:]') for s in lv)
    g = wk.cfg
    ok = ok and all(g.guarded(g.node_of[id(s)], lambda at: at.op == 'in' and same(at.left, 'current_level'), True) for s in lv)
    ctx.check(ok, 'TileWalker._walk:levels-consumed', 'a level is removed from the remaining levels exactly when it is the current one', wk)


@rule('C11.f', floor=3)
def c11f(ctx):
    """the box handed down is always limited to the parent box; "not started" is distinguishable from "finished" in the
    stored progress"""
    wk = ctx.fn(S + ':TileWalker._walk')
    g = wk.cfg
    lim = g.find_stmts(lambda s: isinstance(s, ast.Assign) and unparse(s.targets[0]) == 'sub_bbox' and is_call(s.value, 'limit_sub_bbox'))
    rec = g.find(lambda x: is_call(x, 'self._walk'))
    ok = bool(lim) and bool(rec) and all(any(g.dominates(l, n) for l in lim) for n, x in rec)
    ctx.check(ok, 'TileWalker._walk:sub-box-limited-on-every-path', 'limit_sub_bbox is applied on every path to the recursion (also for fully contained sub tiles)', wk,
              fail='the recursion can be entered with the full (meta) tile box of the sub tile: on grids whose tiles do not nest, tiles outside the '
                   'coverage are seeded')
    init = ctx.fn(S + ':SeedProgress.__init__')
    iv = [s.value for s in init.walk() if isinstance(s, ast.Assign) and unparse(s.targets[0]) == 'self.level_progresses']
    cs = ctx.fn(S + ':SeedProgress.can_skip')
    op = cs.params[0]
    fin = [unparse(c.comparators[0]) for c in cs.walk() if isinstance(c, ast.Compare) and unparse(c.left) == op and isinstance(c.ops[0], ast.Eq)] + \
        [unparse(c.left) for c in cs.walk() if isinstance(c, ast.Compare) and len(c.comparators) == 1 and unparse(c.comparators[0]) == op and isinstance(c.ops[0], ast.Eq)]
    ok = bool(iv) and bool(fin) and all(unparse(v) not in fin for v in iv) and all(const_value(v, 1) is None for v in iv)
    ctx.check(ok, 'SeedProgress:not-started-is-not-finished', 'the initial progress (None) differs from the identifier that means "everything finished" (%s)' % fin, init,
              fail='the initial progress equals the identifier that means "everything finished" (%s): a run interrupted right after its first '
                   'progress report is skipped completely on --continue' % fin)
    cp = ctx.fn(S + ':SeedProgress.current_progress_identifier')
    # the old identifier is returned whenever the current path is still None (closed form of the test: the attribute may be read into a local)
    g = cp.cfg
    olds = [g.node_of[id(r)] for r in returns_of(cp.node) if same(r.value, 'self.old_level_progresses')]
    news = [g.node_of[id(r)] for r in returns_of(cp.node) if not same(r.value, 'self.old_level_progresses')]
    isnone = lambda at: at.op == '==' and 'None' in (unparse(at.left), unparse(at.right)) and any(same(e, 'self.level_progresses') for e in (at.left, at.right))
    ok = bool(olds) and bool(news) and all(g.guarded(n, isnone, False) for n in news)
    ctx.check(ok, 'SeedProgress.current_progress_identifier:none-keeps-old', 'before the first step_down the old identifier is kept', cp,
              fail='current_progress_identifier does not keep the old identifier while the walk has not started')


@rule('C11.g', floor=1)
def c11g(ctx):
    """"nothing else": the coverage test and the recursion use the *unbuffered* rectangle of a meta tile -- the walker builds its own
    MetaGrid with meta_buffer=0 (the tile manager's grid carries the request buffer, which would make neighbours of the coverage
    count as intersecting)"""
    fn = ctx.fn('mapproxy/seed/seeder.py' + ':TileWalker.__init__')
    cf = Canon(fn)
    sets = [s for s in fn.walk() if isinstance(s, ast.Assign) and unparse(s.targets[0]) == 'self.grid']
    ok = bool(sets)
    for s in sets:
        v = cf.expr(s.value)
        buf = keyword(v, 'meta_buffer', 2) if isinstance(v, ast.Call) else None
        ok = ok and is_call(v, 'MetaGrid') and buf is not None and const_value(buf, 1) == 0
    ctx.check(ok, 'TileWalker.__init__:unbuffered-grid', 'self.grid = MetaGrid(<grid>, meta_size, meta_buffer=0)', fn,
              fail='the walker does not use an unbuffered meta grid: meta tiles outside the coverage but within the meta buffer of it are seeded')
    fs = ctx.fn('mapproxy/seed/seeder.py' + ':TileWalker._filter_subtiles')
    ok = any(isinstance(x, ast.Attribute) and x.attr == 'bbox' and is_call(x.value, 'self.grid.meta_tile') for x in fs.walk())
    ctx.check(ok, 'TileWalker._filter_subtiles:bbox-of-walker-grid', 'the rectangle tested against the coverage is self.grid.meta_tile(subtile).bbox', fs)


@rule('C11.h', floor=1)
def c11h(ctx):
    """the "whole sub tree is inside the coverage" shortcut is decided per sub tile: inside the loop over the sub tiles the flag
    handed to the recursion is (re)assigned from this sub tile's intersection on every path, and it is True only for CONTAINS
    (a flag that stays set for later siblings seeds / removes their whole pyramid without coverage test)"""
    fn = ctx.fn(S + ':TileWalker._walk')
    g = fn.cfg
    rec = [(n, x) for n, x in g.find(lambda x: is_call(x, 'self._walk'))]
    if not rec:
        raise Undecided('TileWalker._walk: recursive call not found')
    for n, x in rec:
        arg = keyword(x, 'all_subtiles', 3)
        lp = enclosing(x, ast.For)
        ok = isinstance(arg, ast.Name) and lp is not None
        if ok:
            head = g.node_of.get(id(lp))
            sets = g.find_stmts(lambda s: isinstance(s, ast.Assign) and unparse(s.targets[0]) == arg.id and inside(s, lp))
            ok = head is not None and bool(sets) and not g.reaches_avoiding(head, n, avoid=set(sets))
            # value: True exactly for CONTAINS
            for s in sets:
                v = g.stmt[s].value
                if isinstance(v, ast.Constant) and v.value is True:
                    ok = ok and g.guarded(s, lambda at: at.op == '==' and 'CONTAINS' in at.text and 'intersection' in at.text, True)
                elif isinstance(v, ast.Constant) and v.value is False:
                    ok = ok and g.guarded(s, lambda at: at.op == '==' and 'CONTAINS' in at.text and 'intersection' in at.text, False)
                else:
                    ok = ok and isinstance(v, ast.Compare) and 'CONTAINS' in unparse(v) and isinstance(v.ops[0], (ast.Eq, ast.Is))
        ctx.check(ok, 'TileWalker._walk:subtree-flag-per-subtile', 'all_subtiles is assigned from this sub tile\'s intersection (== CONTAINS) on every path '
                  'to the recursive call', fn, x,
                  fail='the all_subtiles flag of an earlier sibling can reach the recursion for this sub tile: a partially covered sub tree is '
                       'walked without coverage test')


@rule('C11.i', floor=10)
def c11i(ctx):
    """shared rule, re-evaluated for this property: the meta tile walk steps through columns with the meta width and through rows
    with the meta height (axis discipline of MetaGrid, C03.a) -- a row sequence stepped with the width skips meta tile rows on every
    level, they are never checked against the coverage and never requested"""
    from ..engine import run_property
    sub = run_property(ctx.repo, 'C03', ctx.tier, only={'C03.a'})
    for er in sub.errors:
        raise Undecided('shared rule %s: %s' % er)
    for o in sub.obs:
        if not o.construct.startswith('MetaGrid.'):
            continue
        (ctx.ok if o.status == 'ok' else ctx.bad)('%s:%s' % (o.rule, o.construct), o.msg, o.where)
    ctx.stats['functions'] |= {q for q in sub.stats['functions'] if 'MetaGrid.' in q}


@rule('C11.j', floor=2)
def c11j(ctx):
    """shared rule, re-evaluated for this property: the coverage a task walks is the configured one, also after it was transformed
    into the SRS of the grid -- a re-projected polygon keeps its holes (C17.i); without them tiles whose meta tile lies completely
    inside a hole, i.e. outside the coverage, are seeded"""
    from ..engine import run_property
    sub = run_property(ctx.repo, 'C17', ctx.tier, only={'C17.i'})
    for er in sub.errors:
        raise Undecided('shared rule %s: %s' % er)
    for o in sub.obs:
        (ctx.ok if o.status == 'ok' else ctx.bad)('%s:%s' % (o.rule, o.construct), o.msg, o.where)
    ctx.stats['functions'] |= sub.stats['functions']


@rule('C11.k', floor=2)
def c11k(ctx):
    """the saved progress of one task is never taken for the progress of another: the configuration splits a seed entry into several
    tasks that differ only in their levels (one per level for caches with rescaled tiles); the key the progress is stored under
    (SeedTask.id) therefore contains the levels next to name, cache and grid.  With a key that several tasks share, the first one that
    finishes marks all others as done: their tiles are never requested"""
    fn = ctx.fn(S + ':SeedTask.id')
    rets = [fn.canon.expr(r.value) for r in returns_of(fn.node) if r.value is not None]
    ok = bool(rets)
    missing = []
    for f in rets:
        elts = f.elts if isinstance(f, ast.Tuple) else [f]
        texts = [unparse(e) for e in elts]
        for want in ("self.md['name']", "self.md['cache_name']", "self.md['grid_name']"):
            if not any(want in t for t in texts):
                missing.append(want)
        if not any(contains(e, lambda x: isinstance(x, ast.Attribute) and unparse(x) == 'self.levels') for e in elts):
            missing.append('self.levels')
    ctx.check(ok and not missing, 'SeedTask.id:names-the-levels', 'the progress key is (name, cache, grid, levels)', fn,
              fail='the progress key of a seed task lacks %s: tasks that differ only in that share one saved progress' % missing)
    sc = ctx.fn('mapproxy/seed/config.py:SeedConfiguration.seed_tasks')
    per_level = [x for x in sc.walk() if is_call(x, 'SeedTask') and len(x.args) >= 3 and isinstance(x.args[2], ast.List) and len(x.args[2].elts) == 1]
    # (or: the tasks of one cache/grid pair are built in a loop of their own over groups of levels)
    def loops_around(x):
        n, k = getattr(x, '_parent', None), 0
        while n is not None and n is not sc.node:
            k += isinstance(n, ast.For)
            n = getattr(n, '_parent', None)
        return k
    per_level += [x for x in sc.walk() if is_call(x, 'SeedTask') and loops_around(x) >= 3]
    ctx.check(bool(per_level), 'SeedConfiguration.seed_tasks:per-level-tasks', 'one seed entry can become several tasks with the same name/cache/grid (one per level)', sc)


@rule('C11.l', floor=2)
def c11l(ctx):
    """no sub-pyramid is rejected that a coverage reaches: a seed with several coverages asks each of them, in the coordinates the
    question was put in.  MultiCoverage.intersects / contains only hand (bbox, srs) on to their members -- the rectangle is not compared
    with anything here (the extent of a MultiCoverage is kept in EPSG:4326; a quick reject against it with a rectangle in the grid SRS
    throws away nearly every meta tile of a non-geographic grid while the task still completes)"""
    for m in ('intersects', 'contains'):
        fn = ctx.fn('mapproxy/util/coverage.py:MultiCoverage.' + m)
        p_bbox, p_srs = fn.params[1], fn.params[2]
        bad = []
        for x in fn.walk():
            if isinstance(x, ast.Name) and x.id == p_bbox and isinstance(x.ctx, ast.Load):
                par = getattr(x, '_parent', None)
                ok = isinstance(par, ast.Call) and isinstance(par.func, ast.Attribute) and par.func.attr in ('intersects', 'contains') and \
                    len(par.args) == 2 and par.args[0] is x and unparse(par.args[1]) == p_srs
                if not ok:
                    bad.append(unparse(par)[:60] if par is not None else x.id)
        ctx.check(not bad, 'MultiCoverage.%s:rectangle-only-handed-on' % m, 'the rectangle goes to the member coverages together with its SRS, nowhere else', fn,
                  fail='MultiCoverage.%s uses the rectangle itself (%s): it is in the SRS of the caller, not in the SRS of anything kept here' % (m, '; '.join(bad)))


@rule('C11.m', floor=1)
def c11m(ctx):
    """every selected tile is created, also with rescaled tiles: a cache that builds tiles from its neighbouring levels
    (`upscale_tiles` is a negative, `downscale_tiles` a positive `rescale_tiles`) creates exactly the tiles it is asked for, so the
    seeder walks such a cache tile by tile, not by meta tile -- for *any* non-zero rescale_tiles (with `> 0` the upscaling caches are
    walked by meta tile and only one tile of each meta tile is made)"""
    fn = ctx.fn(S + ':seed_task')
    g = fn.cfg
    offs = g.find_stmts(lambda s: isinstance(s, ast.Assign) and unparse(s.targets[0]) == 'work_on_metatiles' and const_value(s.value, 1) is False)
    walker = [x for x in fn.walk() if is_call(x, 'TileWalker')]
    if not offs:
        # the flag computed in one expression
        asg = [s for s in fn.walk() if isinstance(s, ast.Assign) and unparse(s.targets[0]) == 'work_on_metatiles']
        ok = bool(asg) and all(unparse(fn.canon.expr(s.value)).replace(' ', '') in ('nottask.tile_manager.rescale_tiles', 'task.tile_manager.rescale_tiles==0')
                               for s in asg)
    else:
        def nonzero(at):
            return at.op is None and unparse(at.expr).endswith('tile_manager.rescale_tiles')
        zero = lambda at: at.op == '==' and 'rescale_tiles' in at.text and const_value(at.right if 'rescale' in unparse(at.left) else at.left) == 0      # noqa: E731
        # switched off exactly under "rescale_tiles is not zero": on the truth edge of the plain test (or the false edge of `== 0`), and
        # left on everywhere else
        edges = g.guard_edges(nonzero, True) + g.guard_edges(zero, False)
        ok = all(g.guarded(n, nonzero, True) or g.guarded(n, zero, False) for n in offs) and bool(edges) and \
            all(any(n in g.reachable(d) for n in offs) for s_, d in edges)
    ctx.check(ok and bool(walker), 'seed_task:tile-by-tile-for-rescaling-caches', 'work_on_metatiles is switched off for every non-zero rescale_tiles', fn,
              fail='seed_task walks a rescaling cache by meta tile unless rescale_tiles is positive: an upscaling cache gets one tile per meta tile')


@rule('C11.n', floor=4)
def c11n(ctx):
    """saved progress stands for work that was done: a dry run (`--dry-run`) walks the pyramid without creating a tile, so it must
    neither record its position in the progress file nor remove the file when it finishes (D51: an interrupted dry run followed by
    `--continue` skipped every subtree the dry run had walked; a finished dry run deleted the progress of an interrupted real run).
    Decided in two halves that have to agree: (1) the command line script builds its ProgressStore read-only from the dry-run option
    (or builds none in a dry run); (2) in a read-only store every effect on the file -- write_atomic / open for writing in write(),
    os.remove / os.unlink in remove() -- is guarded by the flag being false"""
    sc = ctx.fn('mapproxy/seed/script.py:SeedScript.__call__')
    g = sc.cfg
    cf = Canon(sc)
    made = g.find(lambda x: is_call(x, 'ProgressStore'))
    if not made:
        raise Undecided('SeedScript.__call__: construction of the ProgressStore not found')

    def is_dry(at):
        return at.op is None and 'dry_run' in unparse(at.expr)
    flag_names = set()
    for n, x in made:
        ro = keyword(x, 'read_only', 2)
        v = cf.expr(ro) if ro is not None else None
        if is_call(v, 'bool') and len(v.args) == 1:
            v = v.args[0]
        wired = v is not None and isinstance(v, ast.Attribute) and v.attr == 'dry_run'
        none_in_dry_run = g.guarded(n, is_dry, False)
        ctx.check(wired or none_in_dry_run, 'SeedScript.__call__:store-read-only-in-dry-run',
                  'ProgressStore(..., read_only=options.dry_run) (or no store at all in a dry run)', sc, x,
                  fail='the progress store of a dry run is writable: a dry run records progress for tiles it never created '
                       '(and removes the saved progress of a real run when it ends)')
    st = ctx.fn(U + ':ProgressStore.__init__')
    p_ro = [a for a in st.params if a == 'read_only']
    keeps = [s for s in st.walk() if isinstance(s, ast.Assign) and isinstance(s.targets[0], ast.Attribute) and
             isinstance(s.value, ast.Name) and s.value.id == 'read_only' and unparse(s.targets[0].value) == 'self']
    flag_names = {s.targets[0].attr for s in keeps}
    ctx.check(bool(p_ro) and bool(flag_names), 'ProgressStore.__init__:keeps-read-only', 'the read_only argument is kept on the store', st,
              fail='ProgressStore does not keep a read_only flag')

    def is_flag(at):
        return at.op is None and isinstance(at.expr, ast.Attribute) and at.expr.attr in flag_names and unparse(at.expr.value) == 'self'
    for meth, effects, what in (('write', ('write_atomic', 'open', 'pickle.dump', 'os.rename', 'os.replace'), 'writes the file'),
                                ('remove', ('os.remove', 'os.unlink'), 'removes the file')):
        fn = ctx.fn(U + ':ProgressStore.' + meth)
        gg = fn.cfg
        sites = gg.find(lambda x: any(is_call(x, e) for e in effects))
        if not sites:
            raise Undecided('ProgressStore.%s: the call that %s was not found' % (meth, what))
        for n, x in sites:
            ctx.check(gg.guarded(n, is_flag, False), 'ProgressStore.%s:not-when-read-only' % meth,
                      'ProgressStore.%s %s only if the store is not read-only' % (meth, what), fn, x,
                      fail='a read-only ProgressStore still %s (%s)' % (what, unparse(x)[:50]))


def _levels_offset(e):
    """k for an expression `grid.levels + k` (None if it is something else)"""
    if isinstance(e, ast.Attribute) and e.attr == 'levels' and not (isinstance(e.value, ast.Name) and e.value.id == 'self'):
        return 0
    if isinstance(e, ast.BinOp) and isinstance(e.op, (ast.Add, ast.Sub)) and isinstance(e.right, ast.Constant) and \
            isinstance(e.right.value, int):
        k = _levels_offset(e.left)
        if k is not None:
            return k + (e.right.value if isinstance(e.op, ast.Add) else -e.right.value)
    return None


@rule('C11.o', floor=2)
def c11o(ctx):
    """"every tile of the chosen levels": a list of levels in the seed configuration is cut to the levels the grid has -- 0 up to and
    including grid.levels - 1 -- and to nothing less: the deepest level of the grid is a level.  Every upper bound the selection
    compares with, written as an exclusive bound, is exactly grid.levels (`x <= grid.levels - 1`, `x < grid.levels`,
    `range(grid.levels)`); `range(grid.levels - 1)` drops the last level of a short custom grid while the task still completes"""
    C = 'mapproxy/seed/config.py'
    for cls in ('LevelsList', 'LevelsRange'):
        fn = ctx.fn('%s:%s.for_grid' % (C, cls))
        bounds = []
        for x in fn.walk():
            if isinstance(x, ast.Compare) and len(x.ops) >= 1:
                terms = [x.left] + list(x.comparators)
                for a, op, b in zip(terms, x.ops, terms[1:]):
                    kb, ka = _levels_offset(b), _levels_offset(a)
                    if kb is not None and isinstance(op, (ast.Lt, ast.LtE)):
                        bounds.append((x, kb + (1 if isinstance(op, ast.LtE) else 0)))
                    if ka is not None and isinstance(op, (ast.Gt, ast.GtE)):
                        bounds.append((x, ka + (1 if isinstance(op, ast.GtE) else 0)))
            elif is_call(x, 'range') and x.args:
                k = _levels_offset(x.args[-1] if len(x.args) <= 2 else x.args[1])
                if k is not None:
                    bounds.append((x, k))
            elif is_call(x, 'min') and len(x.args) == 2:
                # an inclusive stop (the range is built with stop + 1)
                for a in x.args:
                    k = _levels_offset(a)
                    if k is not None:
                        bounds.append((x, k + 1))
        if not bounds:
            raise Undecided('%s.for_grid: no comparison with the number of levels of the grid found' % cls)
        for x, k in bounds:
            ctx.check(k == 0, '%s.for_grid:deepest-level-is-a-level' % cls, 'levels are cut at grid.levels (exclusive)', fn, x,
                      fail='%s.for_grid cuts the selected levels at grid.levels%+d (exclusive): %s' % (
                          cls, k, 'the deepest level of the grid is never seeded' if k < 0 else 'levels the grid does not have are selected'))
