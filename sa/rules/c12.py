"""C12 -- cleanup removes exactly the expired tiles it was asked to remove.
Decided: for every directory layout the level directory handed to the clean-up is the
directory the tile paths of that level live in, with the dimension sub-directory in the same
place, and compact caches use one level-directory format (C12.a); the directory walk hands a
file to the remover iff remove_all or lstat(file).st_mtime is on the old side of the
threshold, and only produces paths below the directory (C12.b); every backend DELETE of a
level is bound to that level (and to the timestamp, when given), per-level backends unlink
only the level's own file (C12.c); the whole-level strategies are only chosen for complete
extents, otherwise the tile walk with the stale test removes tile by tile, and nothing else
in the package calls remove_tile(s) (C12.d).
Added in round 4: level bounds are only compared with None, level 0 is a level (C12.h); an empty
coverage is not "no coverage" (C12.i); a per-level cache claims tile time stamps only if its level
databases have them (C12.j).
Added in round 5: directory strategy only where level directories exist (C12.k); per-cache flags
stay local (C12.l); numbered directories compare as numbers (C12.m); task time before cache option
(C12.n, shared C13.j); an empty selection selects nothing (C12.o); one directory per grid (C12.p,
shared C02.j).
Added in round 6: saved progress is only taken up with --continue (C12.q)."""
import ast
import re

from ..engine import rule
from ..model import Undecided
from ..cfg import same, dotted, call_name, is_call, simple_name, unparse, const_value, contains, enclosing, implied
from ..flow import Defs, depends
from ..decide import table, ret_kind
from ..util import keyword, returns_of, calls_in, inside, order_key, str_variants, HOLE
from .c05 import _location_pairs, _sql_sites

NOT_DECIDED = 'actual cache contents and modification times, clock behaviour, coverage geometry'

PATH = 'mapproxy/cache/path.py'
COMPACT = 'mapproxy/cache/compact.py'


def _level_part_formats(ctx):
    """(str branch returns the level itself?, numeric format literal) of level_part and level_location"""
    out = {}
    for name in ('level_part', 'level_location'):
        fn = ctx.fn(PATH + ':' + name)
        fmt, passthrough = None, False
        g = fn.cfg
        isstr = lambda at: at.op is None and is_call(at.expr, 'isinstance') and len(at.expr.args) == 2 and unparse(at.expr.args[1]) in ('str', 'basestring', 'string_type')
        for r in g.find_stmts(lambda s_: isinstance(s_, ast.Return) and s_.value is not None):
            v = g.stmt[r].value
            last = v.args[-1] if is_call(v, 'os.path.join') else v
            if g.guarded(r, isstr, True):
                passthrough = isinstance(last, ast.Name) and last.id == fn.params[0]
            elif g.guarded(r, isstr, False):
                if isinstance(last, ast.BinOp) and isinstance(last.op, ast.Mod) and isinstance(last.left, ast.Constant):
                    fmt = last.left.value
        if name == 'level_location' and fmt is None:
            # delegation: level_location(level, ..) = join(.., level_part(level))
            rets = returns_of(fn.node)
            last = [r.value.args[-1] for r in rets if is_call(r.value, 'os.path.join') and r.value.args]
            if rets and len(last) == len(rets) and all(is_call(x, 'level_part') and len(x.args) == 1 and unparse(x.args[0]) == fn.params[0] for x in last):
                passthrough, fmt = out['level_part']
        out[name] = (passthrough, fmt)
    return out


def _shape(e, lp, levelnames):
    """canonical shape of a level component expression for an *integer* level"""
    if isinstance(e, ast.Name) and e.id in levelnames:
        return 'INT'
    if isinstance(e, ast.Call) and call_name(e) == 'str' and e.args:
        return 'STR' if _shape(e.args[0], lp, levelnames) in ('INT', 'STR') else '?'
    if isinstance(e, ast.BinOp) and isinstance(e.op, ast.Mod) and isinstance(e.left, ast.Constant) and isinstance(e.left.value, str):
        inner = _shape(e.right, lp, levelnames)
        return 'FMT:' + e.left.value if inner == 'INT' else '?'
    if is_call(e, 'level_part') and e.args:
        inner = _shape(e.args[0], lp, levelnames)
        passthrough, fmt = lp['level_part']
        if inner == 'INT':
            return 'FMT:' + fmt if fmt else '?'
        return inner if passthrough else '?'
    return '?'


def _level_fn_shape(ctx, fn, lp, depth=3):
    """shape of the last path component returned by a level location function called with an int level, and the
    expression position of dimensions"""
    rets = returns_of(fn.node)
    lv = fn.params[0]
    if fn.name == 'level_location':
        passthrough, fmt = lp['level_location']
        return ('FMT:' + fmt if fmt else '?'), True
    from ..flow import Canon
    cfl = Canon(fn)
    rv = cfl.expr(rets[0].value) if len(rets) == 1 and rets[0].value is not None else None       # closed form: locals followed
    if rv is not None and is_call(rv, 'level_location') and depth > 0:
        c = rv
        arg = c.args[0]
        inner = _shape(arg, lp, {lv})
        passthrough, fmt = lp['level_location']
        if inner == 'INT':
            shape = 'FMT:' + fmt if fmt else '?'
        else:
            shape = inner if passthrough else '?'
        d = keyword(c, 'dimensions', 2)
        dims_ok = d is not None and isinstance(d, ast.Name) and d.id == 'dimensions'
        return shape, dims_ok
    return '?', False


@rule('C12.a', floor=5)
def c12a(ctx):
    lp = _level_part_formats(ctx)
    if not lp['level_part'][1] or not lp['level_location'][1]:
        raise Undecided('numeric level format of level_part/level_location not found')
    lf, pairs = _location_pairs(ctx)
    n = 0
    for layout, t, l, r in pairs:
        if isinstance(l, ast.Constant) and l.value is None:
            ctx.ok('layout-%s:no-level-dir' % layout, 'layout %r has no level directory (level clean-up disabled)' % layout, lf, r)
            continue
        lfn = ctx.fn(PATH + ':' + l.id)
        if any(isinstance(s, ast.Raise) for s in lfn.node.body):
            ctx.ok('layout-%s:no-level-dir' % layout, 'layout %r refuses level locations (%s raises)' % (layout, l.id), lf, r)
            continue
        tfn = ctx.fn(PATH + ':' + t.id)
        defs = Defs(tfn.node)
        locs = [v for v, sel in defs.of('tile.location')]
        if not locs:
            raise Undecided('%s: tile.location assignment not found' % t.id)
        loc = locs[0]
        if is_call(loc, 'os.path.join') and len(loc.args) == 1 and isinstance(loc.args[0], ast.Starred):
            parts = defs.single(unparse(loc.args[0].value))
            comps = list(parts[0].elts) if parts and isinstance(parts[0], ast.Tuple) else []
        elif is_call(loc, 'os.path.join'):
            comps = list(loc.args)
        else:
            comps = []
        zs = {nm for nm, ds in defs.defs.items() for v, sel in ds if sel == 2 and unparse(v).endswith('.coord')}
        tile_shape, tile_idx, dim_idx = '?', None, None
        for i, c in enumerate(comps):
            if is_call(c, 'dimensions_part'):
                dim_idx = i
            s = _shape(c, lp, zs)
            if s != '?' and tile_idx is None and contains(c, lambda x: isinstance(x, ast.Name) and x.id in zs):
                tile_shape, tile_idx = s, i
        lshape, ldims = _level_fn_shape(ctx, lfn, lp)
        n += 1
        ctx.check(tile_shape != '?' and tile_shape == lshape, 'layout-%s:level-dir-agrees' % layout,
                  'tiles of an integer level live in directory %s and %s returns %s' % (tile_shape, l.id, lshape), lf, r,
                  fail='layout %r: tiles of level z are stored under %s but the level directory used by the clean-up is %s '
                       '(%s): level clean-up walks a directory that holds no tiles' % (layout, tile_shape, lshape, l.id))
        ctx.check(dim_idx is not None and tile_idx is not None and dim_idx == tile_idx - 1 and dim_idx == 1 and ldims,
                  'layout-%s:dimensions-same-place' % layout,
                  'the dimension sub-directory sits between cache_dir and the level directory in both functions', lf, r,
                  fail='layout %r: the dimension sub-directory is not in the same place in tile path and level directory '
                       '(tile path index %s, level index %s, level function forwards dimensions: %s)' % (layout, dim_idx, tile_idx, ldims))
    # level_location itself: join(cache_dir, dimensions_part(dimensions), level)
    ll = ctx.fn(PATH + ':level_location')
    defs = Defs(ll.node)
    ok = all(is_call(r.value, 'os.path.join') and len(r.value.args) == 3 and same(r.value.args[0], 'cache_dir') and
             depends(r.value.args[1], lambda x: is_call(x, 'dimensions_part'), defs) for r in returns_of(ll.node))
    ctx.check(ok, 'level_location:form', 'level_location = cache_dir / dimensions_part(dimensions) / level', ll)
    # compact: one level directory format
    a = ctx.fn(COMPACT + ':CompactCacheBase._get_bundle_fname_and_offset')
    b = ctx.fn(COMPACT + ':CompactCacheBase.remove_level_tiles_before')

    def level_fmt(fn):
        out = []
        for x in fn.walk():
            if is_call(x, 'os.path.join') and len(x.args) >= 2 and same(x.args[0], 'self.cache_dir'):
                c = x.args[1]
                if isinstance(c, ast.BinOp) and isinstance(c.op, ast.Mod) and isinstance(c.left, ast.Constant):
                    out.append(c.left.value)
                else:
                    out.append(unparse(c))
        return out
    fa, fb = level_fmt(a), level_fmt(b)
    ctx.check(bool(fa) and fa == fb, 'compact:level-dir-format', 'bundles are stored in and levels removed from cache_dir/%s' % fa, b,
              fail='compact cache stores bundles in %s but removes level directory %s' % (fa, fb))
    rm = [x for x in b.walk() if is_call(x, 'shutil.rmtree')]
    g = b.cfg
    ok = bool(rm) and all(g.guarded(g.node_for(x), lambda at: at.op is None and same(at.expr, 'remove_all'), True) for x in rm)
    ctx.check(ok, 'compact:rmtree-only-remove-all', 'the level directory is removed only for remove_all', b)


@rule('C12.b', floor=5)
def c12b(ctx):
    fn = ctx.fn('mapproxy/util/fs.py:cleanup_directory')
    g = fn.cfg
    defs = Defs(fn.node)
    handlers = g.find(lambda x: is_call(x, 'file_handler'))
    if not handlers:
        ctx.bad('cleanup_directory:handler', 'file_handler is never called', fn)
        return
    for n, h in handlers:
        st = enclosing(h, ast.If)
        ok = False
        detail = 'file_handler call is not under an `if`'
        if st is not None:
            from ..decide import expr_table
            tab = ctx.rows(expr_table(st.test))
            ra = tab.find_atoms('remove_all')
            ma = [a for a in tab.atoms if 'st_mtime' in a or 'getmtime' in a]
            if len(ra) == 1 and len(ma) == 1:
                at = tab.atom_objs[ma[0]]
                # direction: mtime on the small side:  mtime < threshold (True)  or  threshold < mtime (False)
                def is_m(e):
                    return contains(e, lambda x: isinstance(x, ast.Attribute) and x.attr == 'st_mtime') or contains(e, lambda x: is_call(x, 'getmtime'))

                def is_t(e):
                    return contains(e, lambda x: isinstance(x, ast.Name) and x.id == 'before_timestamp')
                if at.op == '<' and is_m(at.left) and is_t(at.right):
                    want = lambda asg: asg[ra[0]] or asg[ma[0]]
                elif at.op == '<' and is_t(at.left) and is_m(at.right):
                    want = lambda asg: asg[ra[0]] or not asg[ma[0]]
                else:
                    want = None
                if want is not None:
                    ok = all(v == want(asg) for asg, v, _ in tab.assignments())
                    detail = 'the condition `%s` is not remove_all OR mtime older than before_timestamp' % unparse(st.test)
                else:
                    detail = 'the age comparison %s does not compare the file mtime with before_timestamp' % ma[0]
            else:
                detail = 'expected one remove_all atom and one mtime comparison in `%s`' % unparse(st.test)
        ctx.check(ok, 'cleanup_directory:age-filter', 'a file is handed to the remover iff remove_all or mtime older than '
                  'before_timestamp', fn, h, fail=detail + ': newer tiles are removed or expired ones kept')
        lst = [x for x in ast.walk(st.test)] if st is not None else []
        uses_lstat = any(is_call(x, 'os.lstat') for x in lst)
        uses_stat = any(is_call(x, 'os.stat', 'os.path.getmtime') for x in lst)
        ctx.check(uses_lstat and not uses_stat, 'cleanup_directory:lstat', 'the age is taken with lstat (a single-colour link is judged '
                  'by its own age, not by the age of the shared target)', fn, h,
                  fail='the age is taken with stat/getmtime: a link to an old single-colour tile looks old although the tile was just written')
        # the file name handed over is a join of dirpath from os.walk(directory)
        arg = h.args[0] if h.args else None
        ok = arg is not None and depends(arg, lambda x: is_call(x, 'os.path.join') and x.args and same(x.args[0], 'dirpath'), defs)
        walks = [x for x in fn.walk() if is_call(x, 'os.walk')]
        ok = ok and bool(walks) and all(same(w.args[0], 'directory') for w in walks)
        ctx.check(ok, 'cleanup_directory:below-directory', 'only paths below `directory` (os.walk(directory), join(dirpath, name)) are produced', fn, h)
    rm = g.find(lambda x: is_call(x, 'shutil.rmtree'))
    for n, x in rm:
        ok = g.guarded(n, lambda at: at.op is None and same(at.expr, 'remove_all'), True) and same(x.args[0], 'directory')
        ctx.check(ok, 'cleanup_directory:rmtree-only-remove-all', 'the whole directory is removed only for remove_all', fn, x)
    fh = [v for v, sel in defs.of('file_handler')]
    ok = all(unparse(v) in ('os.remove', 'os.unlink') for v in fh)
    ctx.check(ok, 'cleanup_directory:default-handler', 'the default handler removes the file itself', fn)


@rule('C12.c', floor=6)
def c12c(ctx):
    for rel, cname in (('mapproxy/cache/mbtiles.py', 'MBTilesCache'), ('mapproxy/cache/geopackage.py', 'GeopackageCache')):
        fn = ctx.fn('%s:%s.remove_level_tiles_before' % (rel, cname))
        defs = Defs(fn.node)
        g = fn.cfg
        sites = _sql_sites(fn)
        if not sites:
            ctx.bad('%s.remove_level_tiles_before:delete' % cname, 'no DELETE statement found', fn)
        for i, c in enumerate(sites):
            for s in str_variants(c.args[0], defs):
                if not re.match(r'\s*DELETE', s, re.I):
                    continue
                m = re.search(r'WHERE\s*(.*)$', s, re.I | re.S)
                where = m.group(1) if m else ''
                ok = bool(re.search(r'zoom_level\s*=\s*\?', where))
                args = c.args[1] if len(c.args) > 1 else None
                first = args.elts[0] if isinstance(args, ast.Tuple) and args.elts else None
                ok = ok and isinstance(first, ast.Name) and first.id == 'level'
                ctx.check(ok, '%s.remove_level_tiles_before:delete%d-level-bound' % (cname, i),
                          'DELETE is bound to `zoom_level = ?` with the level parameter', fn, c,
                          fail='level clean-up DELETE is not bound to exactly the requested level: %s' % ' '.join(s.split())[:90])
                node = g.node_for(c)
                if not g.guarded(node, lambda at: at.op is None and same(at.expr, 'remove_all'), True):
                    ok = bool(re.search(r'last_modified\s*<\s*datetime\(\?', where))
                    ok = ok and isinstance(args, ast.Tuple) and len(args.elts) == 2 and same(args.elts[1], 'timestamp')
                    ctx.check(ok, '%s.remove_level_tiles_before:delete%d-age-bound' % (cname, i),
                              'without remove_all the DELETE is also bound to last_modified < timestamp', fn, c,
                              fail='the timestamp form of the level DELETE does not filter by last_modified < timestamp')
    for rel, cname, attr in (('mapproxy/cache/mbtiles.py', 'MBTilesLevelCache', 'mbtile_file'),
                             ('mapproxy/cache/geopackage.py', 'GeopackageLevelCache', 'geopackage_file')):
        fn = ctx.fn('%s:%s.remove_level_tiles_before' % (rel, cname))
        g = fn.cfg
        defs = Defs(fn.node)
        lc = [v for v, sel in defs.of('level_cache')]
        ok = bool(lc) and all(is_call(v, 'self._get_level') and same(v.args[0], 'level') for v in lc)
        ctx.check(ok, '%s.remove_level_tiles_before:level-cache' % cname, 'operates on self._get_level(level)', fn)
        for n, x in g.find(lambda x: is_call(x, 'os.unlink', 'os.remove')):
            a = x.args[0]
            ok = same(a, 'level_cache.' + attr) or depends(a, lambda y: unparse(y) == 'level_cache.' + attr, defs)
            ok = ok and g.guarded(n, lambda at: at.op is None and same(at.expr, 'remove_all'), True)
            ctx.check(ok, '%s.remove_level_tiles_before:unlink-own-file' % cname,
                      'only the level\'s own database file (and its journal files) is unlinked, and only for remove_all', fn, x,
                      fail='per-level clean-up unlinks %s' % unparse(a))
        dl = [x for x in fn.walk() if is_call(x, 'level_cache.remove_level_tiles_before')]
        # the level database only looks at (level, timestamp) if it has a DELETE outside its remove_all branch
        inner = ctx.fn('%s:%s.remove_level_tiles_before' % (rel, cname.replace('Level', '')))
        gi = inner.cfg
        uses = [c for c in _sql_sites(inner) if not gi.guarded(gi.node_for(c), lambda at: at.op is None and same(at.expr, 'remove_all'), True)]
        if not uses:
            ctx.ok('%s.remove_level_tiles_before:delegates' % cname, 'the level database has no timestamp-based removal: the '
                   'delegated call without remove_all is a no-op whatever its arguments', fn)
            continue
        ok = bool(dl) and all(same(x.args[0], 'level') and len(x.args) > 1 and same(x.args[1], 'timestamp') for x in dl)
        ctx.check(ok, '%s.remove_level_tiles_before:delegates' % cname, 'the timestamp form delegates (level, timestamp) to the level database', fn)


@rule('C12.d', floor=8)
def c12d(ctx):
    fn = ctx.fn('mapproxy/seed/cleanup.py:cleanup')
    g = fn.cfg
    for callee in ('simple_cleanup', 'cache_cleanup'):
        sites = g.find(lambda x: is_call(x, callee))
        if not sites:
            ctx.bad('cleanup:%s' % callee, '%s is never called' % callee, fn)
        for n, x in sites:
            ok = g.guarded(n, lambda at: at.op is None and same(at.expr, 'task.complete_extent'), True)
            ctx.check(ok, 'cleanup:%s-only-complete-extent' % callee,
                      '%s (whole-level removal) only runs for tasks that cover the complete extent' % callee, fn, x,
                      fail='%s can run for a task with a partial coverage: tiles outside the coverage are removed' % callee)
    tw = g.find(lambda x: is_call(x, 'tilewalker_cleanup'))
    ctx.check(bool(tw), 'cleanup:tilewalker-fallback', 'every other task is cleaned by the tile walk', fn)
    tc = ctx.fn('mapproxy/seed/cleanup.py:tilewalker_cleanup')
    g = tc.cfg
    # abstract run over remove_all: the expiry threshold is set iff not remove_all, and the walker's handle_all is remove_all
    def ev(st, truth):
        if isinstance(st, ast.Assign) and unparse(st.targets[0]) == 'task.tile_manager._expire_timestamp':
            return 'expire' if same(st.value, 'task.remove_timestamp') else 'expire-other'
        w = [x for x in ast.walk(st) if is_call(x, 'TileWalker')] if isinstance(st, (ast.Assign, ast.Expr)) else []
        if w:
            ha = keyword(w[0], 'handle_all')
            return 'walker-all' if ha is not None and truth(ha) else 'walker-some'
        return None
    ev.wants_env = True
    tab = ctx.rows(table(tc.node.body, ret_kind, event_of=ev))
    ra = [a for a in tab.atoms if a == 'task.remove_all']
    ok1 = ok2 = len(ra) == 1
    for asg, out, events in tab.assignments():
        if not ra:
            break
        ok1 = ok1 and (('expire' in events) == (not asg[ra[0]])) and 'expire-other' not in events
        ok2 = ok2 and (('walker-all' in events) == asg[ra[0]]) and (('walker-some' in events) == (not asg[ra[0]]))
    ctx.check(ok1, 'tilewalker_cleanup:expire-timestamp', 'the stale test uses task.remove_timestamp unless remove_all', tc)
    walker = [x for x in tc.walk() if is_call(x, 'TileWalker')]
    ok = bool(walker) and const_value(keyword(walker[0], 'handle_stale')) is True and const_value(keyword(walker[0], 'work_on_metatiles')) is False \
        and keyword(walker[0], 'handle_all') is not None
    ctx.check(ok, 'tilewalker_cleanup:walker-args', 'TileWalker(handle_stale=True, handle_all=<remove_all>, work_on_metatiles=False)', tc)
    ctx.check(ok2, 'tilewalker_cleanup:handle-all-iff-remove-all', 'handle_all is True only for remove_all', tc)
    pool = [x for x in tc.walk() if is_call(x, 'TileWorkerPool')]
    ok = bool(pool) and len(pool[0].args) > 1 and same(pool[0].args[1], 'TileCleanupWorker')
    ctx.check(ok, 'tilewalker_cleanup:worker', 'the worker is TileCleanupWorker', tc)
    wk = ctx.fn('mapproxy/seed/seeder.py:TileCleanupWorker.work_loop')
    ok = any(is_call(x, 'remove_tile_coords') for x in wk.walk())
    ctx.check(ok, 'TileCleanupWorker:removes', 'the clean-up worker calls remove_tile_coords on the tiles it was handed', wk)
    # who may call remove_tile(s)
    allowed = {'mapproxy/cache/tile.py:TileManager.remove_tile_coords', 'mapproxy/cache/base.py:TileCacheBase.remove_tiles'}
    n = 0
    for qn, f in sorted(ctx.repo.funcs.items()):
        for x in f.walk():
            if isinstance(x, ast.Call) and simple_name(x) in ('remove_tile', 'remove_tiles', 'remove_tile_coords'):
                n += 1
                here = qn.split('#')[0]
                ok = here in allowed or f.name in ('remove_tile', 'remove_tiles') or \
                    (f.file.startswith('mapproxy/seed/') or f.file.startswith('mapproxy/script/'))
                ctx.check(ok, 'who-may-remove:%s' % f.short, '%s is called from the clean-up path / a cache backend delegating to its '
                          'sibling' % simple_name(x), f, x,
                          fail='%s is called from %s: tiles are removed outside the clean-up path' % (simple_name(x), f.short))


@rule('C12.e', floor=3)
def c12e(ctx):
    """one time convention for the stored modification time: every SQL statement that converts a bound epoch timestamp for the
    last_modified column uses the same datetime(?, ...) modifiers (the store writes local time, so the removal threshold and the
    TTL tests must be local time too), and the reader converts the column back with the matching function (time.mktime = local)"""
    for rel in ('mapproxy/cache/mbtiles.py', 'mapproxy/cache/geopackage.py'):
        m = ctx.repo.mod(rel)
        bound, now = {}, {}
        for node in ast.walk(m.tree):
            if isinstance(node, ast.Constant) and isinstance(node.value, str) and 'datetime(' in node.value:
                for mo in re.finditer(r"datetime\(\s*(\?|'now')\s*((?:,\s*'[^']*'\s*)*)\)", node.value):
                    mods = tuple(x.strip().strip("'") for x in mo.group(2).split(',') if x.strip())
                    mods = tuple(x for x in mods if not x.startswith('%') and 'seconds' not in x)
                    (bound if mo.group(1) == '?' else now).setdefault(mods, []).append(node)
        if not bound and not now:
            continue
        conv = {('localtime' in k) for k in list(bound) + list(now)}
        where = (rel, min(n.lineno for ns in list(bound.values()) + list(now.values()) for n in ns))
        ctx.check(len(conv) == 1, '%s:one-time-convention' % rel.split('/')[-1],
                  'all datetime(...) expressions compared with / written to last_modified use one convention (%s)' % (
                      'local time' if True in conv else 'UTC'), where,
                  fail='the SQL statements mix local-time and UTC conversions of the modification time (%s): on a host that is not on UTC the '
                       'removal threshold is off by the UTC offset' % sorted(set(list(bound) + list(now))))
        ub = {k for k in bound}
        ctx.check(len(ub) <= 1, '%s:bound-timestamp-modifiers' % rel.split('/')[-1],
                  'every bound epoch value is converted with the same modifiers %s' % (sorted(ub)[:1],), where,
                  fail='bound epoch values are converted with different modifiers: %s' % sorted(ub))
    rd = ctx.fn('mapproxy/cache/mbtiles.py:sqlite_datetime_to_timestamp')
    local = any(is_call(x, 'time.mktime', 'mktime') for x in rd.walk())
    utc = any(is_call(x, 'calendar.timegm', 'timegm') for x in rd.walk())
    mb = ctx.repo.mod('mapproxy/cache/mbtiles.py')
    writes_local = any(isinstance(n, ast.Constant) and isinstance(n.value, str) and 'INSERT' in n.value and "'localtime'" in n.value for n in ast.walk(mb.tree))
    ctx.check((local and not utc) == writes_local, 'sqlite_datetime_to_timestamp:matches-store', 'the stored local-time string is read back with time.mktime (local time)', rd,
              fail='the column is written in one time convention and read back in the other')


@rule('C12.f', floor=1)
def c12f(ctx):
    """coverage-limited cleanup walks the cache with the seeding walker: what it removes outside the coverage is decided by the
    walker's per-sub-tile coverage test (shared rules C11.h and C11.g)"""
    from ..engine import run_property
    sub = run_property(ctx.repo, 'C11', ctx.tier, only={'C11.h', 'C11.g'})
    for er in sub.errors:
        raise Undecided('shared rule %s: %s' % er)
    for o in sub.obs:
        (ctx.ok if o.status == 'ok' else ctx.bad)('%s:%s' % (o.rule, o.construct), o.msg, o.where)
    ctx.stats['functions'] |= sub.stats['functions']


@rule('C12.g', floor=2)
def c12g(ctx):
    """a cleanup task never continues from (or is skipped because of) the stored progress of a seed task: the progress store is keyed
    by task.id, and the ids of CleanupTask and SeedTask can never be equal -- the cleanup id carries a constant tag the seed id does
    not have in that position, or the two tuples differ in length"""
    S = 'mapproxy/seed/seeder.py'
    ids = {}
    for cname in ('SeedTask', 'CleanupTask'):
        f = ctx.fn('%s:%s.id' % (S, cname))
        rets = [r for r in returns_of(f.node) if r.value is not None]
        forms = [f.canon.expr(r.value) for r in rets]
        if len(forms) != 1 or not isinstance(forms[0], ast.Tuple):
            raise Undecided('%s.id does not return one tuple' % cname)
        ids[cname] = (f, forms[0])
    a, b = ids['SeedTask'][1], ids['CleanupTask'][1]
    distinct = len(a.elts) != len(b.elts)
    for x, y in zip(a.elts, b.elts):
        cx, cy = const_value(x, Ellipsis), const_value(y, Ellipsis)
        if (isinstance(cx, str) or isinstance(cy, str)) and cx != cy and (cx is Ellipsis or cy is Ellipsis) is False:
            distinct = True
        # a constant tag against a configuration value: distinct as long as the tag is not a value the other position can take;
        # a string tag against the tuple of levels / against a differently typed element is always distinct
    tagged = [k for k, (x, y) in enumerate(zip(a.elts, b.elts)) if isinstance(const_value(y, None), str) != isinstance(const_value(x, None), str)]
    typed = any(is_call(x, 'tuple') != is_call(y, 'tuple') for x, y in zip(a.elts, b.elts))
    ok = distinct or (bool(tagged) and typed)
    ctx.check(ok, 'CleanupTask.id:distinct-from-seed-id',
              'seed id %s and cleanup id %s cannot be equal' % (unparse(a).replace(' ', ''), unparse(b).replace(' ', '')), ids['CleanupTask'][0],
              fail='CleanupTask.id and SeedTask.id have the same form %s: a cleanup task reads the progress a seed task with the same name, cache, '
                   'grid and levels stored (an empty remainder: "finished") and removes nothing' % unparse(b).replace(' ', ''))
    # the stores are keyed by that id
    n = 0
    for rel in (S, 'mapproxy/seed/cleanup.py'):
        for f in sorted(ctx.repo.fns_in(rel + ':'), key=lambda f_: f_.qn):
            for x in f.walk():
                if is_call(x, 'progress_store.get', 'progress_store.add') and x.args:
                    n += 1
                    k = sum(1 for o in ctx.obs if o.construct.startswith('%s:progress-keyed-by-task-id' % f.short))
                    ctx.check(f.ctext(x.args[0]).endswith('.id'), '%s:progress-keyed-by-task-id%s' % (f.short, k or ''),
                              'stored progress is looked up / recorded by task.id', f, x)
    if n < 2:
        raise Undecided('only %d accesses of the progress store found' % n)


@rule('C12.h', floor=2)
def c12h(ctx):
    """level 0 is a level like any other: the bounds of a `levels: {from: .., to: ..}` range are replaced by their defaults only when
    they are missing (None), never because they are falsy -- `to: 0` read as "no upper bound" turns a clean-up of level 0 into a
    clean-up of the whole pyramid"""
    from .c05 import _truthy_names
    fn = ctx.fn('mapproxy/seed/config.py:LevelsRange.for_grid')
    defs = Defs(fn.node)
    bounds = set()
    for name, ds in defs.defs.items():
        for v, sel in ds:
            if isinstance(sel, int) and 'level_range' in unparse(v):
                bounds.add(name)
    if len(bounds) < 2:
        raise Undecided('LevelsRange.for_grid: the two bounds unpacked from self.level_range were not found (%s)' % sorted(bounds))
    flagged = []
    for node in fn.walk():
        tests = []
        if isinstance(node, (ast.If, ast.While, ast.IfExp, ast.Assert)):
            _truthy_names(node.test, tests)
        elif isinstance(node, ast.BoolOp):
            for v in node.values[:-1]:
                _truthy_names(v, tests)
        flagged += [t.id for t in tests if t.id in bounds]
    ctx.check(not flagged, 'LevelsRange.for_grid:zero-is-a-level', 'the bounds %s are only compared with None' % sorted(bounds), fn,
              fail='the level bound(s) %s are tested by truthiness: level 0 as a bound counts as "not given" and the task covers all levels' % sorted(set(flagged)))
    g = fn.cfg
    sets = g.find_stmts(lambda s: isinstance(s, ast.Assign) and isinstance(s.targets[0], ast.Name) and s.targets[0].id in bounds and
                        isinstance(s.value, ast.Constant))
    ok = bool(sets) and all(g.guarded(n, lambda at: at.op == '==' and 'None' in at.text, True) for n in sets)
    ctx.check(ok, 'LevelsRange.for_grid:defaults-only-for-none', 'a default replaces a bound only under `<bound> is None`', fn,
              fail='a level bound is overwritten with a default although it was given')


@rule('C12.i', floor=1)
def c12i(ctx):
    """a clean-up never removes tiles whose meta tile lies outside the task coverage: a configured coverage that turned out to be
    *empty* (False: an expire list without changes, a file without features) is not the same as *no* coverage (None).  Only the
    latter means "the complete extent"; the empty one is carried on as False (the clean-up skips the task)"""
    fn = ctx.fn('mapproxy/seed/config.py:CleanupConfiguration.cleanup_tasks')
    loops = [s for s in fn.walk() if isinstance(s, ast.For)]
    inner = [l for l in loops if not any(isinstance(x, ast.For) for s in l.body for x in ast.walk(s))]
    if not inner:
        raise Undecided('cleanup_tasks: loop over the caches not found')
    body = [s for s in inner[-1].body if any(isinstance(x, ast.Assign) and any(isinstance(t, ast.Name) and t.id in ('coverage', 'complete_extent')
                                                                               for t in x.targets) for x in ast.walk(s))]

    def ev(st):
        if isinstance(st, ast.Assign) and len(st.targets) == 1 and isinstance(st.targets[0], ast.Name):
            t, v = st.targets[0].id, st.value
            if t == 'complete_extent':
                return 'extent=%s' % (const_value(v, '?') if isinstance(v, ast.Constant) else unparse(v))
            if t == 'coverage':
                return 'cov=%s' % ('False' if const_value(v, 1) is False else 'grid' if is_call(v, 'BBOXCoverage') else
                                   'own' if is_call(v, 'self.coverage.transform_to') else unparse(v)[:30])
        return None
    tab = ctx.rows(table(body, lambda n: 'go' if n is None else type(n).__name__, event_of=ev))
    a_false = [a for a in tab.atoms if 'self.coverage' in a and 'False' in a]
    a_truth = [a for a in tab.atoms if a == 'self.coverage']
    ok = len(a_false) == 1 and len(a_truth) == 1
    bad = []
    if ok:
        fobj = tab.atom_objs[a_false[0]]
        for asg, out, events in tab.assignments():
            is_false = asg[a_false[0]] if fobj.op in ('==', 'is') else not asg[a_false[0]]
            if is_false and asg[a_truth[0]]:
                continue            # False is not truthy
            ext = [e for e in events if e.startswith('extent=')][-1:]
            cov = [e for e in events if e.startswith('cov=')][-1:]
            want = (['extent=False'], ['cov=False']) if is_false else (['extent=False'], ['cov=own']) if asg[a_truth[0]] else (['extent=True'], ['cov=grid'])
            if (ext, cov) != want:
                bad.append((dict(asg), ext, cov))
    ctx.check(ok and not bad, 'CleanupConfiguration.cleanup_tasks:empty-coverage-is-not-everything',
              'coverage False -> (False, not the complete extent); a coverage -> transformed, not complete; None -> grid bbox, complete extent', fn,
              fail='the clean-up task for an empty coverage is not carried on as "nothing" (%s): it runs over the complete extent' % (
                  bad[:1] if bad else 'no `self.coverage is False` case, atoms %s' % tab.atoms))


LEVEL_CACHES = [('mapproxy/cache/mbtiles.py', 'MBTilesLevelCache'), ('mapproxy/cache/geopackage.py', 'GeopackageLevelCache')]


@rule('C12.j', floor=4)
def c12j(ctx):
    """a clean-up for "older than T" only runs on caches that know the age of a tile: the seed configuration refuses `remove_before`
    for a cache whose `supports_timestamp` is False (and removes everything only when told so).  A cache that says True although its
    tiles carry no time stamp lets the clean-up run on the placeholder time stamp -1: every tile is "older", fresh ones included.
    Decided for the per-level caches: the class attribute agrees with the `with_timestamps` constant their level databases are
    created with"""
    for rel, cname in LEVEL_CACHES:
        cls = ctx.repo.cls('%s:%s' % (rel, cname))
        gl = ctx.fn('%s:%s._get_level' % (rel, cname))
        vals = set()
        for x in gl.walk():
            if not (isinstance(x, ast.Call) and isinstance(x.func, ast.Name)):
                continue
            q = ctx.repo.resolve_name(gl.mod, x.func)
            k = ctx.repo.classes.get(q) if q else None
            init = k.method('__init__') if k is not None else None
            if init is None or 'with_timestamps' not in init.params:
                continue
            v = keyword(x, 'with_timestamps', init.params.index('with_timestamps') - 1)
            vals.add(const_value(v, '?') if v is not None else const_value(init.node.args.defaults[init.params.index('with_timestamps') - len(init.params)], '?'))
        claim = const_value(cls.attr_value('supports_timestamp'), '?')
        ok = len(vals) == 1 and claim in (True, False) and vals == {claim}
        ctx.check(ok, '%s:supports_timestamp-agrees' % cname, 'supports_timestamp = %s, level databases are created with with_timestamps=%s' % (claim, sorted(vals, key=str)),
                  (rel, cls.node.lineno), fail='%s claims supports_timestamp = %s but creates its level databases with with_timestamps=%s: a clean-up '
                  'by age runs on tiles that have no age' % (cname, claim, sorted(vals, key=str)))
    for m in ('SeedConfiguration.seed_tasks', 'CleanupConfiguration.cleanup_tasks'):
        fn = ctx.fn('mapproxy/seed/config.py:' + m)
        g = fn.cfg
        tests = [at for s, d, test, pol in g.branch_edges() for at, p in implied(test, pol) if at.text.endswith('cache.supports_timestamp')]
        ctx.check(bool(tests), '%s:asks-the-cache' % m, 'the task set-up looks at cache.supports_timestamp', fn,
                  fail='%s no longer looks at supports_timestamp of the cache' % m)
    cl = ctx.fn('mapproxy/seed/config.py:CleanupConfiguration.cleanup_tasks')
    g = cl.cfg
    raises = g.find_stmts(lambda s: isinstance(s, ast.Raise) and 'remove_before' in unparse(s))
    ok = bool(raises) and all(g.guarded(n, lambda at: at.text.endswith('cache.supports_timestamp'), False) for n in raises)
    ctx.check(ok, 'CleanupConfiguration.cleanup_tasks:refuses-age-without-timestamps', 'remove_before is refused for a cache without time stamps', cl)


@rule('C12.k', floor=2)
def c12k(ctx):
    """every selected level is cleaned, whatever the directory layout: the directory based strategy (one directory per level, removed
    file by file) is only chosen for a cache that can name the directory of each selected level.  The quadkey layout keeps all levels in
    one directory and its level_location() raises NotImplementedError: the choice asks for the level directories first and falls back
    to the tile walk when they cannot be named"""
    fn = ctx.fn('mapproxy/seed/cleanup.py:cleanup')
    g = fn.cfg
    sc = g.find(lambda x: is_call(x, 'simple_cleanup'))
    if not sc:
        raise Undecided('cleanup: simple_cleanup call not found')

    def probes(f):
        """does function f try level_location(..) and answer False on NotImplementedError?"""
        for t in f.walk():
            if isinstance(t, ast.Try) and any(h.type is not None and 'NotImplementedError' in unparse(h.type) and
                                              any(isinstance(s, ast.Return) and const_value(s.value, 1) is False for s in ast.walk(h)) for h in t.handlers):
                if any(isinstance(x, ast.Call) and 'level_location' in unparse(x.func) for b in t.body for x in ast.walk(b)):
                    return True
        return False

    def names_level_dirs(at):
        c = at.expr if at.op is None else None
        if not isinstance(c, ast.Call):
            return False
        nm = call_name(c)
        f = ctx.repo.funcs.get('mapproxy/seed/cleanup.py:%s' % nm) if nm else None
        return f is not None and probes(f) and any(unparse(a) == 'task.levels' for a in c.args)
    ok = all(g.guarded(n, names_level_dirs, True) for n, x in sc)
    if not ok:
        # the probe written out in cleanup() itself: a try around level_location() whose NotImplementedError handler avoids simple_cleanup
        ok = any(isinstance(t, ast.Try) and any(h.type is not None and 'NotImplementedError' in unparse(h.type) for h in t.handlers) and
                 any(isinstance(x, ast.Call) and 'level_location' in unparse(x.func) for b in t.body for x in ast.walk(b)) and
                 not any(is_call(x, 'simple_cleanup') for h in t.handlers for x in ast.walk(h)) for t in fn.walk())
    ctx.check(ok, 'cleanup:directory-strategy-needs-level-directories', 'simple_cleanup is chosen only when level_location() answers for the selected levels', fn,
              fail='cleanup() chooses the directory strategy for every cache that has a level_location method: for the quadkey layout that method '
                   'raises NotImplementedError and the clean-up ends without removing anything')
    tw = g.find(lambda x: is_call(x, 'tilewalker_cleanup'))
    ctx.check(bool(tw), 'cleanup:tile-walk-fallback', 'caches without level directories are cleaned by the tile walk', fn)


@rule('C12.l', floor=2)
def c12l(ctx):
    """what a task removes (or refreshes) is decided by its own cache: an entry of seed.yaml names several caches, and `remove_all` /
    `refresh_all` is switched on for a cache that records no time stamps -- for the task of that cache only.  The generators that build
    the tasks do not write to the configuration object inside their loops (a flag stored on `self` stays set for every cache that
    follows: their tiles are all removed / all fetched again although they do record time stamps)"""
    for qn in ('mapproxy/seed/config.py:SeedConfiguration.seed_tasks', 'mapproxy/seed/config.py:CleanupConfiguration.cleanup_tasks'):
        fn = ctx.fn(qn)
        bad = []
        for st in fn.walk():
            if isinstance(st, (ast.Assign, ast.AugAssign)) and enclosing(st, ast.For) is not None:
                for t in (st.targets if isinstance(st, ast.Assign) else [st.target]):
                    for x in ast.walk(t):
                        if isinstance(x, ast.Attribute) and isinstance(x.ctx, ast.Store) and isinstance(x.value, ast.Name) and x.value.id == 'self':
                            bad.append(unparse(x))
        ctx.check(not bad, '%s:per-cache-decisions-stay-local' % fn.short, 'nothing is stored on the configuration object while the tasks of its caches are built', fn,
                  fail='%s stores %s on the entry inside the loop over its caches: the value decided for one cache is used for all caches after it' % (
                      fn.short, ', '.join(sorted(set(bad)))))


@rule('C12.m', floor=2)
def c12m(ctx):
    """a continued clean-up skips only what was done: the saved progress is a level directory, and "already processed" is decided by
    comparing directory names component by component -- components that are numbers (the level directories of the tms layout are not
    zero-padded) are compared as numbers; as strings '10' sorts before '9' and the levels 10..19 count as done"""
    fn = ctx.fn('mapproxy/seed/cleanup.py:DirectoryCleanupProgress.can_skip')
    g = fn.cfg
    cmps = [(n, x) for n, x in g.find(lambda x: isinstance(x, ast.Compare) and len(x.ops) == 1 and isinstance(x.ops[0], (ast.Lt, ast.Gt, ast.LtE, ast.GtE)))
            if enclosing(x, ast.For) is not None]
    if not cmps:
        raise Undecided('can_skip: no ordering comparison of path components found')
    defs = Defs(fn.node)
    ok = True
    for n, x in cmps:
        for side in (x.left, x.comparators[0]):
            if is_call(side, 'int'):
                continue
            if not isinstance(side, ast.Name):
                ok = False
                continue
            # the name is (re)bound to int(<itself>) under `<name>.isdigit()` before the comparison
            conv = [v for v, sel in defs.of(side.id) if is_call(v, 'int') or (isinstance(v, ast.Tuple) and sel is not None and
                                                                             isinstance(sel, int) and sel < len(v.elts) and is_call(v.elts[sel], 'int'))]
            ok = ok and bool(conv)
    digits = [x for x in fn.walk() if isinstance(x, ast.Call) and isinstance(x.func, ast.Attribute) and x.func.attr in ('isdigit', 'isdecimal', 'isnumeric')]
    ctx.check(ok and len(digits) >= 2, 'DirectoryCleanupProgress.can_skip:numbers-as-numbers',
              'path components that are numbers are converted with int() before they are ordered', fn,
              fail='can_skip orders the level directories as strings: after an interruption in level 2..9 of a tms layout the levels 10..19 are '
                   'taken for done')
    # the decision table of one step of the comparison is unchanged: smaller -> not skippable, larger -> skippable
    rets = [r for r in returns_of(fn.node)]
    ctx.check((any(const_value(r.value, 0) is True for r in rets) or any(isinstance(r.value, ast.Compare) for r in rets)) and
              any(const_value(r.value, 0) is False for r in rets),
              'DirectoryCleanupProgress.can_skip:both-answers', 'can_skip answers both ways', fn)


@rule('C12.n', floor=2)
def c12n(ctx):
    """shared rule C13.j, re-evaluated for this property: the time of the clean-up task, not the refresh_before option of the cache,
    decides what the tile walk removes"""
    from ..engine import run_property
    sub = run_property(ctx.repo, 'C13', ctx.tier, only={'C13.j'})
    for e in sub.errors:
        raise Undecided('shared rule %s: %s' % e)
    for o in sub.obs:
        if o.status == 'ok':
            ctx.ok('%s:%s' % (o.rule, o.construct), o.msg, o.where)
        else:
            ctx.bad('%s:%s' % (o.rule, o.construct), o.msg, o.where)
    ctx.stats['functions'] |= sub.stats['functions']


@rule('C12.o', floor=2)
def c12o(ctx):
    """only the tasks that were asked for run: `mapproxy-seed --seed NAME` hands the clean-up side an *empty* selection (cleanup is
    off unless --cleanup is given), and an empty selection selects nothing.  "All tasks of the file" is the meaning of `None` alone:
    the list of all names is taken under `names is None`, never through the truth value of the selection (`names or <all>` runs every
    clean-up of the file for a run that asked for none)"""
    for m in ('cleanups', 'seeds'):
        fn = ctx.fn('mapproxy/seed/config.py:SeedingConfiguration.' + m)
        g = fn.cfg
        p = fn.params[1]
        bad = []
        # the selection is never used for its truth value
        for x in fn.walk():
            if isinstance(x, ast.BoolOp) and any(isinstance(v, ast.Name) and v.id == p for v in x.values[:-1]):
                bad.append(unparse(x)[:60])
            if isinstance(x, (ast.If, ast.IfExp, ast.While)) and contains(x.test, lambda y: isinstance(y, ast.Name) and y.id == p) and \
                    not contains(x.test, lambda y: isinstance(y, ast.Compare) and isinstance(y.ops[0], (ast.Is, ast.IsNot)) and
                                 isinstance(y.left, ast.Name) and y.left.id == p):
                bad.append(unparse(x.test)[:60])
        # re-binding the selection to all names happens under `names is None`
        rebinds = g.find_stmts(lambda s: isinstance(s, ast.Assign) and unparse(s.targets[0]) == p)
        ok = not bad and all(g.guarded(n, lambda at: at.op == '==' and {unparse(at.left), unparse(at.right)} == {p, 'None'}, True) for n in rebinds)
        ctx.check(ok, 'SeedingConfiguration.%s:empty-selection-selects-nothing' % m, 'all names are taken only for `%s is None`' % p, fn,
                  fail='SeedingConfiguration.%s takes an empty selection for "all tasks" (%s): a run that selected no clean-up runs every '
                       'clean-up of the file' % (m, '; '.join(bad) or 'selection re-bound without the None test'))


@rule('C12.p', floor=2)
def c12p(ctx):
    """shared rule C02.j, re-evaluated for this property: a clean-up of one grid of a cache does not reach the tiles of another grid
    -- every grid of a directory based cache has a directory of its own (also when the directory of the cache is configured)"""
    from ..engine import share
    share(ctx, 'C02', {'C02.j'})


@rule('C12.q', floor=1)
def c12q(ctx):
    """a run cleans everything it was asked to clean: progress saved by an earlier, interrupted run is only taken up again when the
    user says so (--continue).  mapproxy-seed builds its ProgressStore with `continue_seed=options.continue_seed`; the default of
    the class is to load the old file, and with it an ordinary run given only --progress-file skips the levels and sub-trees the old
    run had passed -- their expired tiles stay"""
    fn = ctx.fn('mapproxy/seed/script.py:SeedScript.__call__')
    ps = [x for x in fn.walk() if is_call(x, 'ProgressStore')]
    if not ps:
        raise Undecided('SeedScript.__call__: ProgressStore construction not found')
    ok = all(keyword(x, 'continue_seed', 1) is not None and unparse(keyword(x, 'continue_seed', 1)).endswith('options.continue_seed') for x in ps)
    ctx.check(ok, 'SeedScript.__call__:old-progress-only-with-continue', 'ProgressStore(.., continue_seed=options.continue_seed)', fn,
              fail='mapproxy-seed loads the saved progress of an earlier run without being asked to continue: levels that run had passed are '
                   'skipped')


@rule('C12.r', floor=4)
def c12r(ctx):
    """shared rule C11.n, re-evaluated for this property: a dry run of a clean-up removes nothing, so it must not record (or discard)
    progress either -- the directory clean-up saves the level it works on, and an interrupted `--dry-run --cleanup` followed by
    `--continue` would skip the levels the dry run had passed: their expired tiles stay (D51)"""
    from ..engine import share
    share(ctx, 'C11', {'C11.n'})
