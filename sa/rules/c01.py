"""C01 -- map content and feature-info queries land at the right place on the ground.
Per-pixel georeferencing, resampling and reprojection error are numerical and are not
decided.  Decided: the WMS 1.3.0 axis-order switch is applied exactly once on ingress and on
egress of every 1.3.0 GetMap/GetFeatureInfo class, at a point where the parameters carry the
`srs` key, and swaps exactly (1,0,3,2) under is_axis_order_ne (C01.a); where a request exceeds
the layer/source extent, the (size, offset, bbox) triple of one bbox_position_in_image call
feeds the sub-query and the placement of the sub image (C01.b); feature-info coordinates --
the WMTS handler converts the public tile address (shared with C02.a), the click coordinate
is transformed with the same SRS pair as the bbox, and InfoQuery.coord maps the pixel
rectangle to the ground bbox (C01.c); axis discipline of the placement arithmetic (C01.d,
shared qualifier system of C03.a).
Added in round 4: bbox_equals compares all four edges, each with the same edge of the other
rectangle (C01.i); the rectangle clipped at the grid border (tile_bbox limit=True) is only used for
KML descriptions, never as the extent of an image (C01.j).
Added in round 5: a tile source answers only with a tile that is the requested rectangle (C01.k); a
tile is clipped with its own rectangle (C01.l); the reprojecting source asks upstream with the
source query (C01.m, shared C17.b)."""
import ast

from ..engine import rule, run_property
from ..model import Undecided
from ..cfg import same, same_args, dotted, call_name, is_call, simple_name, unparse, const_value, contains, enclosing
from ..flow import Canon, Defs, depends, expand
from ..axis import axis_reports
from ..util import origin_path, keyword, returns_of, calls_in, inside, order_key

NOT_DECIDED = ('everything about pixel content: resampling error, mesh reprojection accuracy, meta-tile stitching arithmetic, '
               'unresampled delivery of exact tiles')

R = 'mapproxy/request/wms/__init__.py'


def _switch_events(ctx, cls, mname, depth=0):
    """linearised event list of method `mname` resolved through the MRO, following explicit Base.m(self) calls:
    ('switch',) ('rename', from, to) in execution order (straight-line methods)"""
    f = cls.method(mname)
    if f is None:
        return None
    ctx.stats['functions'].add(f.qn)
    ev = []
    for st in f.node.body:
        for x in sorted([y for y in ast.walk(st) if isinstance(y, (ast.Call, ast.Assign, ast.Delete))], key=order_key):
            if isinstance(x, ast.Call) and isinstance(x.func, ast.Attribute) and x.func.attr == mname and depth < 3 and \
                    isinstance(x.func.value, ast.Name) and x.args and same(x.args[0], 'self'):
                q = ctx.repo.resolve_name(f.mod, x.func.value)
                if q in ctx.repo.classes:
                    sub = _switch_events(ctx, ctx.repo.classes[q], mname, depth + 1)
                    ev += sub or []
            elif isinstance(x, ast.Call) and isinstance(x.func, ast.Attribute) and x.func.attr == 'switch_bbox':
                cond = enclosing(x, (ast.If, ast.For, ast.While, ast.Try))
                ev.append(('switch', cond is not None and inside(cond, f.node)))
            elif isinstance(x, ast.Assign) and isinstance(x.targets[0], ast.Subscript) and isinstance(x.value, ast.Subscript):
                a, b = const_value(x.targets[0].slice), const_value(x.value.slice)
                if {a, b} == {'srs', 'crs'}:
                    ev.append(('rename', b, a))
    return ev


@rule('C01.a', floor=9)
def c01a(ctx):
    classes = []
    for q, c in sorted(ctx.repo.classes.items()):
        if not q.startswith(R + ':'):
            continue
        v = c.attr_value('version')
        ver = const_value(v.args[0]) if isinstance(v, ast.Call) and v.args else None
        if c.method('adapt_to_111') is None:
            continue
        isreq = any(m.name in ('WMSMapRequest',) for m in c.mro())
        rh = c.attr_value('request_handler_name')
        if const_value(rh) not in ('map', 'featureinfo'):
            continue         # GetLegendGraphic / GetCapabilities carry no bbox
        if isreq and ver is not None:
            classes.append((c, ver))
    v130 = [c for c, ver in classes if ver == '1.3.0']
    if len(v130) < 2:
        raise Undecided('expected at least the two WMS 1.3.0 map/feature-info request classes, found %s' % [c.name for c in v130])
    for c, ver in classes:
        for m in ('adapt_to_111', 'adapt_params_to_version', 'copy_with_request_params'):
            ev = _switch_events(ctx, c, m)
            if ev is None:
                continue
            sw = [e for e in ev if e[0] == 'switch']
            construct = '%s.%s:axis-switch' % (c.name, m)
            where = (c.file, c.method(m).node.lineno)
            if ver == '1.3.0':
                ok = len(sw) == 1 and not sw[0][1]
                ctx.check(ok, construct, 'WMS 1.3.0: switch_bbox() is executed exactly once, unconditionally', where,
                          fail='WMS 1.3.0 %s.%s executes the axis-order switch %d time(s)%s: every EPSG:4326 1.3.0 request is mirrored' % (
                              c.name, m, len(sw), ' (conditionally)' if sw and sw[0][1] else ''))
                if m == 'adapt_to_111' and ok:
                    names = [e[0] for e in ev]
                    ren = [i for i, e in enumerate(ev) if e[0] == 'rename' and e[1] == 'crs' and e[2] == 'srs']
                    si = names.index('switch')
                    ctx.check(bool(ren) and ren[0] < si, '%s.%s:switch-after-rename' % (c.name, m),
                              'ingress: the switch runs after crs was renamed to srs (_switch_bbox reads self.srs)', where,
                              fail='ingress: switch_bbox() runs before the crs -> srs rename: self.srs is None and nothing is switched')
                if m == 'adapt_params_to_version' and ok:
                    names = [e[0] for e in ev]
                    ren = [i for i, e in enumerate(ev) if e[0] == 'rename' and e[1] == 'srs' and e[2] == 'crs']
                    si = names.index('switch')
                    ctx.check(bool(ren) and si < ren[0], '%s.%s:switch-before-rename' % (c.name, m),
                              'egress: the switch runs before srs is renamed to crs', where,
                              fail='egress: switch_bbox() runs after the srs -> crs rename: the srs key is gone and nothing is switched')
            else:
                ctx.check(not sw, construct, 'WMS %s: no axis-order switch' % ver, where,
                          fail='WMS %s request class %s switches the bbox axis order' % (ver, c.name))
    # request_params bind switch_bbox to _switch_bbox
    for c in v130:
        rp = c.attr_value('request_params')
        q = ctx.repo.resolve_name(c.mod, rp) if rp is not None else None
        pc = ctx.repo.classes.get(q)
        v = pc.attr_value('switch_bbox') if pc is not None else None
        ok = v is not None and isinstance(v, ast.Name) and ctx.repo.resolve_name(pc.mod, v) == R + ':_switch_bbox'
        ctx.check(ok, '%s:params-bind-switch' % c.name, 'request_params (%s) binds switch_bbox to _switch_bbox' % (pc.name if pc else '?'), (c.file, c.node.lineno),
                  fail='the request params class of %s has no switch_bbox bound to _switch_bbox' % c.name)
    sb = ctx.fn(R + ':_switch_bbox')
    ok = any(isinstance(s, ast.Assign) and unparse(s.targets[0]) == 'self.bbox' and is_call(s.value, 'switch_bbox_epsg_axis_order') and
             same_args(s.value.args, ['self.bbox', 'self.srs']) for s in sb.walk())
    ctx.check(ok, '_switch_bbox:form', 'self.bbox = switch_bbox_epsg_axis_order(self.bbox, self.srs)', sb)
    fn = ctx.fn(R + ':switch_bbox_epsg_axis_order')
    g = fn.cfg
    rets = g.find_stmts(lambda s: isinstance(s, ast.Return))
    swapped = [r for r in rets if isinstance(g.stmt[r].value, ast.Tuple)]
    ok = len(swapped) == 1
    if ok:
        idx = [const_value(e.slice) for e in g.stmt[swapped[0]].value.elts if isinstance(e, ast.Subscript) and same(e.value, 'bbox')]
        ok = idx == [1, 0, 3, 2] and g.guarded(swapped[0], lambda at: at.op is None and 'is_axis_order_ne' in unparse(at.expr), True)
        others = [r for r in rets if r not in swapped]
        ok = ok and all(same(g.stmt[r].value, 'bbox') for r in others)
    ctx.check(ok, 'switch_bbox_epsg_axis_order:swap', 'returns (bbox[1], bbox[0], bbox[3], bbox[2]) exactly when SRS(srs).is_axis_order_ne, else the bbox unchanged', fn,
              fail='the axis-order switch does not swap exactly indices (1, 0, 3, 2) under is_axis_order_ne')


SUB_SITES = [('mapproxy/service/wms.py:WMSServer.map', 'map_request.params.size', 'orig_query.size'),
             ('mapproxy/layer.py:CacheMapLayer.get_map', 'query.size', 'query.size'),
             ('mapproxy/source/wms.py:WMSSource._get_sub_query', 'query.size', 'query.size')]


@rule('C01.b', floor=9)
def c01b(ctx):
    for qn, size_in, size_out in SUB_SITES:
        fn = ctx.fn(qn)
        defs = Defs(fn.node)
        calls = [x for x in fn.walk() if is_call(x, 'bbox_position_in_image')]
        if len(calls) != 1:
            ctx.bad('%s:bbox-position' % fn.short, 'expected one bbox_position_in_image call, found %d' % len(calls), fn)
            continue
        c = calls[0]
        asg = enclosing(c, ast.Assign)
        tgt = asg.targets[0] if asg is not None else None
        if not (isinstance(tgt, ast.Tuple) and len(tgt.elts) == 3 and all(isinstance(e, ast.Name) for e in tgt.elts)):
            raise Undecided('%s: result of bbox_position_in_image is not unpacked into three names' % qn)
        n_size, n_off, n_bbox = [e.id for e in tgt.elts]
        mq = [x for x in fn.walk() if is_call(x, 'MapQuery') and x.lineno > c.lineno]
        ok = bool(mq) and same(mq[0].args[0], n_bbox) and same(mq[0].args[1], n_size)
        ctx.check(ok, '%s:sub-query-uses-sub-box' % fn.short, 'the sub query is MapQuery(<sub bbox>, <sub size>, ...) of that call', fn, mq[0] if mq else c,
                  fail='the sub query does not take bbox (element 2) and size (element 0) of the bbox_position_in_image result')
        si = [x for x in fn.walk() if is_call(x, 'SubImageSource')]
        ok = bool(si) and same(keyword(si[0], 'offset', 2), n_off) and same(keyword(si[0], 'size', 1), size_out)
        ctx.check(ok, '%s:placement-uses-offset' % fn.short, 'SubImageSource(resp, size=<original size>, offset=<offset of that call>)', fn, si[0] if si else c,
                  fail='the sub image is placed with %s / size %s instead of the offset (element 1) and the original query size' % (
                      unparse(keyword(si[0], 'offset', 2)) if si else '?', unparse(keyword(si[0], 'size', 1)) if si else '?'))
        ok = same(c.args[1], size_in) and len(c.args) == 3
        ctx.check(ok, '%s:position-args' % fn.short, 'bbox_position_in_image(<query bbox>, <query size>, <extent bbox in the query SRS>)', fn, c)
    bp = ctx.fn('mapproxy/image/__init__.py:bbox_position_in_image')
    rets = returns_of(bp.node)
    ok = len(rets) == 1 and isinstance(rets[0].value, ast.Tuple) and len(rets[0].value.elts) == 3 and \
        same(rets[0].value.elts[1], '(offsets[0],offsets[3])') and 'sub_bbox' in unparse(rets[0].value.elts[2])
    ctx.check(ok, 'bbox_position_in_image:returns', 'returns (size, (left offset, top offset), sub bbox)', bp,
              fail='bbox_position_in_image does not return (size, (offsets[0], offsets[3]), sub_bbox)')


@rule('C01.c', floor=6)
def c01c(ctx):
    sub = run_property(ctx.repo, 'C02', ctx.tier, only={'C02.a'})
    for er in sub.errors:
        raise Undecided('shared rule %s: %s' % er)
    for o in sub.obs:
        if 'featureinfo' in o.construct or 'get_info' in o.construct:
            (ctx.ok if o.status == 'ok' else ctx.bad)('%s:%s' % (o.rule, o.construct), o.msg, o.where)
    fn = ctx.fn('mapproxy/client/wms.py:WMSInfoClient._get_transformed_query')
    # closed forms of the upstream query's arguments (independent of how the computation is split into locals)
    cf = Canon(fn)
    iq = [x for x in fn.walk() if is_call(x, 'InfoQuery')]
    kw = {k.arg: cf.expr(k.value) for k in iq[0].keywords} if iq else {}
    qp = fn.params[1] if len(fn.params) > 1 else 'query'

    def T(e):
        return unparse(e).replace(' ', '') if e is not None else None

    def strip_round(e):
        while isinstance(e, ast.Call) and call_name(e) in ('int', 'round') and len(e.args) == 1:
            e = e.args[0]
        return e
    B = kw.get('bbox')
    S = kw.get('srs')
    pos = kw.get('pos')
    size = kw.get('size')
    comps = [strip_round(e) for e in pos.elts] if isinstance(pos, ast.Tuple) and len(pos.elts) == 2 else []
    P = comps[0].value if len(comps) == 2 and all(isinstance(c, ast.Subscript) for c in comps) and \
        [const_value(c.slice) for c in comps] == [0, 1] and T(comps[0].value) == T(comps[1].value) else None
    lin2 = P.func if isinstance(P, ast.Call) and is_call(P.func, 'make_lin_transf') and len(P.func.args) == 2 and len(P.args) == 1 else None
    C = P.args[0] if lin2 is not None else None
    RC = C.args[1] if is_call(C, 'transform_to') and len(C.args) == 2 else None
    lin1 = RC.func if isinstance(RC, ast.Call) and is_call(RC.func, 'make_lin_transf') and len(RC.func.args) == 2 and len(RC.args) == 1 else None
    ok = lin1 is not None and T(RC.args[0]) == qp + '.pos' and T(lin1.args[1]) == qp + '.bbox' and \
        T(lin1.args[0]) == '(0,0,%s.size[0],%s.size[1])' % (qp, qp)
    ctx.check(ok, 'WMSInfoClient._get_transformed_query:click-to-ground', 'the click position is mapped from the pixel rectangle (0, 0, w, h) to the request bbox', fn,
              fail='the click coordinate is not computed as make_lin_transf((0, 0, size[0], size[1]), req_bbox)(query.pos)')
    ok = is_call(B, 'transform_bbox_to') and is_call(C, 'transform_to') and len(B.args) == 2 and T(B.func.value) == T(C.func.value) == qp + '.srs' and \
        T(B.args[0]) == T(C.args[0]) == T(S) and T(B.args[1]) == qp + '.bbox' and is_call(S, 'best_srs')
    ctx.check(ok, 'WMSInfoClient._get_transformed_query:same-srs-pair', 'click coordinate and bbox are transformed with the same req_srs -> info_srs pair', fn,
              fail='the click coordinate is not transformed (or with another SRS pair than the bbox): the upstream is asked about another ground point')
    ok = lin2 is not None and T(lin2.args[0]) == T(B) and isinstance(size, ast.Tuple) and len(size.elts) == 2 and \
        T(lin2.args[1]) == '(0,0,%s,%s)' % (T(size.elts[0]), T(size.elts[1]))
    ctx.check(ok, 'WMSInfoClient._get_transformed_query:ground-to-pixel', 'the new pixel position maps the transformed coordinate from the transformed bbox to (0, 0, w, h)', fn,
              fail='the new pixel position is not make_lin_transf(info_bbox, (0, 0, info_size[0], info_size[1]))(info_coord)')
    ok = bool(iq) and all(kw.get(k) is not None for k in ('bbox', 'size', 'srs', 'pos')) and P is not None and \
        all(n.id == qp or n.id in ('self', 'make_lin_transf', 'int', 'round') for k in ('bbox', 'size', 'srs', 'pos') for n in ast.walk(kw[k]) if isinstance(n, ast.Name))
    ctx.check(ok, 'WMSInfoClient._get_transformed_query:query', 'the upstream query carries the transformed bbox, size, srs and position', fn)
    gi = ctx.fn('mapproxy/client/wms.py:WMSInfoClient.get_info')
    g = gi.cfg
    tq = g.find(lambda x: is_call(x, 'self._get_transformed_query'))
    rt = g.find(lambda x: is_call(x, 'self._retrieve'))
    ok = bool(tq) and bool(rt) and all(g.guarded(n, lambda at: at.op == 'in' and 'query.srs' in unparse(at.left) and 'supported_srs' in unparse(at.right), False) for n, x in tq) and \
        all(same(x.args[0], 'query') for n, x in rt)
    ctx.check(ok, 'WMSInfoClient.get_info:transform-iff-unsupported', 'the query is transformed exactly when its SRS is not supported, and the (possibly transformed) query is sent', gi)
    co = ctx.fn('mapproxy/layer.py:InfoQuery.coord')
    rets = returns_of(co.node)
    ok = len(rets) == 1
    if ok:
        v = rets[0].value
        ok = isinstance(v, ast.Call) and is_call(v.func, 'make_lin_transf') and same(v.args[0], 'self.pos') and \
            same(v.func.args[0], '(0,0,self.size[0],self.size[1])') and same(v.func.args[1], 'self.bbox')
    ctx.check(ok, 'InfoQuery.coord:form', 'coord = make_lin_transf((0, 0, size[0], size[1]), bbox)(pos): pixel rectangle first, ground bbox second', co,
              fail='InfoQuery.coord is not make_lin_transf((0, 0, size[0], size[1]), bbox)(pos)')
    wf = ctx.fn('mapproxy/service/wmts.py:WMTSServer.featureinfo')
    defs = Defs(wf.node)
    iq = [x for x in wf.walk() if is_call(x, 'InfoQuery')]
    ok = bool(iq) and same(iq[0].args[0], 'bbox') and same(iq[0].args[1], 'tile_layer.grid.tile_size') and same(iq[0].args[2], 'tile_layer.grid.srs') \
        and same(iq[0].args[3], 'request.pos')
    bb = [v for v, sel in defs.of('bbox')]
    ok = ok and len(bb) == 1 and is_call(bb[0], 'tile_layer.tile_bbox') and same(bb[0].args[0], 'request')
    ctx.check(ok, 'WMTSServer.featureinfo:query-of-served-tile', 'the info query uses the bbox of the converted (internal) tile, the tile size and the click position', wf,
              fail='WMTS GetFeatureInfo builds its query from another rectangle than the tile that GetTile serves for this address')


C01D = ['mapproxy/image/__init__.py:bbox_position_in_image', 'mapproxy/image/tile.py:TileMerger._tile_offset', 'mapproxy/image/tile.py:TileMerger._src_size',
        'mapproxy/image/tile.py:TileSplitter.get_tile']


@rule('C01.d', floor=4)
def c01d(ctx):
    for q in C01D:
        f = ctx.fn(q)
        reps = axis_reports(f)
        if not reps:
            ctx.ok('%s:axis-clean' % f.short, 'no expression mixes X and Y quantities (qualifier system of C03.a)', f)
        for k, (node, msg) in enumerate(reps):
            ctx.bad('%s:axis-mix%d' % (f.short, k), msg, f, node)


@rule('C01.e', floor=3)
def c01e(ctx):
    """upstream request construction: the bbox/size/srs of a query are set on a private copy of the request template
    (shared rule C17.g) -- otherwise concurrent requests fetch each other's ground area"""
    sub = run_property(ctx.repo, 'C17', ctx.tier, only={'C17.g'})
    for er in sub.errors:
        raise Undecided('shared rule %s: %s' % er)
    for o in sub.obs:
        (ctx.ok if o.status == 'ok' else ctx.bad)('%s:%s' % (o.rule, o.construct), o.msg, o.where)
    ctx.stats['functions'] |= sub.stats['functions']
    fn = ctx.fn('mapproxy/client/wms.py:WMSClient._query_req')
    want = {'.params.bbox': 'query.bbox', '.params.size': 'query.size', '.params.srs': 'query.srs.srs_code', '.params.format': 'format'}
    # attribute stores with the receiver in closed form (`params = req.params; params.bbox = ..` writes req.params.bbox)
    got = {}
    for s_ in fn.walk():
        if isinstance(s_, ast.Assign) and len(s_.targets) == 1 and isinstance(s_.targets[0], ast.Attribute):
            t = s_.targets[0]
            recv = fn.canon.text(t.value, at=fn.cfg.node_for(s_))
            got['.' + (recv + '.' + t.attr).split('.', 1)[1] if '.' in recv else '.' + t.attr] = fn.ctext(s_.value)
    ok = all(got.get(k) == v for k, v in want.items()) or all(any(g.endswith(k) and got[g] == v for g in got) for k, v in want.items())
    ctx.check(ok, 'WMSClient._query_req:query-to-params', 'bbox, size, srs code and format of the query are what is written into the upstream request', fn,
              fail='the upstream request parameters are not the bbox/size/srs/format of the query: %s' % {k: got.get(k) for k in want})


@rule('C01.f', floor=5)
def c01f(ctx):
    """mosaics are positional: TileMerger places list entry i at grid slot i.  Every list handed to TiledImage keeps one entry per
    tile of the grid-ordered collection (a missing tile is an entry None, never a removed entry), comes from the same
    get_affected_* call as the grid shape it is laid out with, and the merger indexes by the position in that list"""
    sites = 0
    for qn in ('mapproxy/cache/tile.py:TileManager._scaled_tile', 'mapproxy/layer.py:CacheMapLayer._image'):
        fn = ctx.fn(qn)
        cf = Canon(fn)
        defs = Defs(fn.node)
        for x in [c for c in fn.walk() if is_call(c, 'TiledImage')]:
            sites += 1
            arg = x.args[0] if x.args else keyword(x, 'tiles')
            form = cf.expr(arg) if arg is not None else None
            inner = form.args[0] if is_call(form, 'list', 'tuple') and form.args else form
            ok = isinstance(inner, (ast.ListComp, ast.GeneratorExp)) and len(inner.generators) == 1 and not inner.generators[0].ifs
            ok = ok or (is_call(inner, 'map') and len(inner.args) == 2)
            ctx.check(ok, '%s:one-entry-per-tile' % fn.short, 'the tile list given to TiledImage has exactly one entry per tile of the collection '
                      '(no filter: position i is grid slot i)', fn, x,
                      fail='the list given to TiledImage is filtered (%s): after a removed entry every later tile is pasted one slot too early'
                           % (unparse(form)[:80] if form is not None else '?'))
            # grid shape and tile list from the same get_affected_* call
            tg = keyword(x, 'tile_grid', 1)
            sb = keyword(x, 'src_bbox', 3)
            def rootidx(e):
                f = cf.expr(e)
                if isinstance(f, ast.Subscript) and isinstance(const_value(f.slice), int):
                    return unparse(f.value), (const_value(f.slice),)
                return unparse(f), ()
            ro = [rootidx(e) for e in (tg, sb) if e is not None]
            coll = inner.generators[0].iter if isinstance(inner, (ast.ListComp, ast.GeneratorExp)) else None
            src_call = None
            if coll is not None:
                # closed form: load_tile_coords(<get_affected_*(..)[2]>, ..) (possibly wrapped in TileCollection(..))
                for c in ast.walk(coll):
                    if is_call(c, 'load_tile_coords', '_load_tile_coords') and c.args:
                        for c2 in ast.walk(c.args[0]):
                            if isinstance(c2, ast.Subscript) and is_call(c2.value, 'get_affected_tiles', 'get_affected_level_tiles') and \
                                    isinstance(const_value(c2.slice), int):
                                src_call = (unparse(c2.value), (const_value(c2.slice),))
            ok = len(ro) == 2 and ro[0][0] == ro[1][0] and 'get_affected' in ro[0][0] and ro[0][1] == (1,) and ro[1][1] == (0,) and \
                src_call is not None and src_call[0] == ro[0][0] and src_call[1] == (2,)
            ctx.check(ok, '%s:grid-and-tiles-of-one-call' % fn.short, 'src_bbox, tile_grid and the tile coordinates are the three results of one '
                      'get_affected_* call', fn, x,
                      fail='the mosaic is laid out with a grid shape / bbox that does not belong to the tile list')
    if sites < 2:
        raise Undecided('TiledImage sites: %d' % sites)
    mg = ctx.fn('mapproxy/image/tile.py:TileMerger.merge')
    loops = [l for l in mg.walk() if isinstance(l, ast.For) and is_call(l.iter, 'enumerate')]
    ok = len(loops) == 1 and len(loops[0].iter.args) == 1 and unparse(loops[0].iter.args[0]) == mg.params[1] and \
        isinstance(loops[0].target, ast.Tuple) and len(loops[0].target.elts) == 2
    if ok:
        iv = unparse(loops[0].target.elts[0])
        off = [c for c in ast.walk(loops[0]) if is_call(c, 'self._tile_offset')]
        ok = bool(off) and all(len(c.args) == 1 and unparse(c.args[0]) == iv for c in off)
    ctx.check(ok, 'TileMerger.merge:slot-is-list-position', 'tile i of the list is pasted at _tile_offset(i); empty entries are skipped inside the '
              'enumeration (their slot stays empty)', mg,
              fail='the merger does not place entry i of the list at grid slot i')
    ti = ctx.fn('mapproxy/image/tile.py:TiledImage.image')
    ok = any(is_call(c, 'TileMerger') and len(c.args) >= 2 and same(c.args[0], 'self.tile_grid') and same(c.args[1], 'self.tile_size') for c in ti.walk()) and \
        any(is_call(c, 'merge') and c.args and same(c.args[0], 'self.tiles') for c in ti.walk())
    ctx.check(ok, 'TiledImage.image:passes-own-grid', 'TiledImage merges its own tiles with its own grid shape and tile size', ti)


@rule('C01.g', floor=1)
def c01g(ctx):
    """content cut out of a meta tile lands at the right place in its tile: tiles at a truncated meta-tile border keep their
    overhang offset (shared rule C04.e)"""
    sub = run_property(ctx.repo, 'C04', ctx.tier, only={'C04.e'})
    for er in sub.errors:
        raise Undecided('shared rule %s: %s' % er)
    for o in sub.obs:
        (ctx.ok if o.status == 'ok' else ctx.bad)('%s:%s' % (o.rule, o.construct), o.msg, o.where)
    ctx.stats['functions'] |= sub.stats['functions']


@rule('C01.h', floor=10)
def c01h(ctx):
    """shared rule, re-evaluated for this property: the tile lookup that decides which stored tiles a map request is composed from keeps
    the two axes apart (axis discipline of TileGrid / MetaGrid, C03.a) and measures rows from the edge they are anchored at (C03.i) -- with
    non-square tiles or extents a mixed-up axis composes the map from tiles of other ground positions"""
    from ..engine import run_property
    sub = run_property(ctx.repo, 'C03', ctx.tier, only={'C03.a', 'C03.i'})
    for er in sub.errors:
        raise Undecided('shared rule %s: %s' % er)
    for o in sub.obs:
        if not o.construct.startswith(('TileGrid.', 'MetaGrid.')):
            continue
        (ctx.ok if o.status == 'ok' else ctx.bad)('%s:%s' % (o.rule, o.construct), o.msg, o.where)
    ctx.stats['functions'] |= {q for q in sub.stats['functions'] if 'Grid.' in q}


@rule('C01.i', floor=2)
def c01i(ctx):
    """two rectangles are "the same" only if all four edges agree: bbox_equals decides whether merged tiles are handed out without
    resampling (ImageTransformer._no_transformation_needed), whether a tiled=true request is aligned (CacheMapLayer._image) and
    whether one grid's level is a subset of another's.  An edge that is not compared lets a request with another extent be answered
    with the unscaled tiles: the content is stretched"""
    fn = ctx.fn('mapproxy/srs.py:bbox_equals')
    if len(fn.params) < 2:
        raise Undecided('bbox_equals: parameters not found')
    a, b = fn.params[0], fn.params[1]
    rets = returns_of(fn.node)
    pairs, foreign = [], []
    for r in rets:
        e = fn.canon.expr(r.value)
        terms = e.values if isinstance(e, ast.BoolOp) and isinstance(e.op, ast.And) else [e]
        for t in terms:
            subs = [x for x in ast.walk(t) if isinstance(x, ast.Subscript) and isinstance(x.value, ast.Name) and x.value.id in (a, b)]
            idx = {(x.value.id, const_value(x.slice)) for x in subs}
            ia = {i for n, i in idx if n == a}
            ib = {i for n, i in idx if n == b}
            if isinstance(t, ast.Compare) and len(ia) == 1 and ia == ib and isinstance(t.ops[0], (ast.Lt, ast.LtE)) and \
                    contains(t.left, lambda x: is_call(x, 'abs')):
                pairs.append(next(iter(ia)))
            else:
                foreign.append(unparse(t)[:60])
    ok = bool(rets) and not foreign and sorted(set(pairs)) == [0, 1, 2, 3]
    ctx.check(ok, 'bbox_equals:all-four-edges', 'bbox_equals is the conjunction of |a[i] - b[i]| < delta for i = 0, 1, 2, 3 (same index on both sides)', fn,
              fail='bbox_equals does not compare every edge with the same edge of the other rectangle (compared: %s%s): rectangles that '
                   'differ in an unchecked edge count as equal and tiles are handed out unscaled for another extent' % (
                       sorted(pairs), '; other terms: %s' % foreign if foreign else ''))
    users = [('mapproxy/image/transform.py:ImageTransformer._no_transformation_needed', 'dst_bbox', 'src_bbox'),
             ('mapproxy/layer.py:CacheMapLayer._image', 'query.bbox', 'src_bbox')]
    for qn, x, y in users:
        f = ctx.fn(qn)
        calls = [c for c in f.walk() if is_call(c, 'bbox_equals')]
        # one argument is the rectangle that was asked for, the other one the rectangle of the tiles (closed forms)
        def requested(e):
            t = f.ctext(e)
            return t in ('query.bbox', 'dst_bbox') or t == x
        ok = bool(calls) and all(len(c.args) >= 2 and requested(c.args[0]) != requested(c.args[1]) and
                                 any(f.ctext(a) == y or 'src_bbox' in unparse(a) or 'get_affected' in f.ctext(a) for a in c.args[:2]) for c in calls)
        ctx.check(ok, '%s:compares-request-with-tiles' % f.short, 'the shortcut compares the requested rectangle with the rectangle of the tiles', f)


TILE_BBOX_CLIPPED_OK = {
    # the region / LatLonAltBox of a KML document describes what is visible: the part of the tile inside the grid
    'mapproxy/service/kml.py:KMLServer.kml', 'mapproxy/service/kml.py:KMLServer._tile_wgs_bbox',
    # the sub tiles listed in the document are those inside the visible part
    'mapproxy/service/kml.py:KMLServer._get_subtiles',
}
TILE_BBOX_PASS_THROUGH = {'mapproxy/service/tile.py:TileLayer.tile_bbox': 'limit', 'mapproxy/service/kml.py:KMLServer._tile_wgs_bbox': 'limit'}


@rule('C01.j', floor=15)
def c01j(ctx):
    """the rectangle of a tile is the full tile: TileGrid.tile_bbox(coord, limit=True) cuts the rectangle at the grid border and is
    only meant for descriptions (KML regions).  Wherever a tile rectangle becomes the extent of an image -- the BBOX of an upstream
    request, the extent of a tile that is merged, the georeference of a response -- the clipped rectangle would stretch the content
    of every tile that hangs over the grid border"""
    n = 0
    for rel, mod in sorted(ctx.repo.modules.items()):
        if '/test/' in rel or not rel.startswith('mapproxy/'):
            continue
        for fn in ctx.repo.fns_in(rel + ':'):
            if '#' in fn.qn:
                continue
            for c in fn.walk():
                if not (isinstance(c, ast.Call) and isinstance(c.func, ast.Attribute) and c.func.attr in ('tile_bbox', '_tile_wgs_bbox')):
                    continue
                n += 1
                pos = 2 if c.func.attr == '_tile_wgs_bbox' else 1 if not (isinstance(c.func.value, ast.Name) and c.func.value.id == 'layer' or
                                                                         'use_profiles' in [k.arg for k in c.keywords]) else 2
                lim = keyword(c, 'limit', pos if len(c.args) > pos else None)
                k = sum(1 for o in ctx.obs if o.construct.startswith('%s:%s#' % (fn.short, c.func.attr)))
                construct = '%s:%s#%d' % (fn.short, c.func.attr, k)
                if lim is None or const_value(lim, 1) in (False, None, 0):
                    ctx.ok(construct, 'full tile rectangle', fn, c)
                    continue
                param_ok = isinstance(lim, ast.Name) and TILE_BBOX_PASS_THROUGH.get(fn.qn) == lim.id
                ok = fn.qn in TILE_BBOX_CLIPPED_OK or param_ok
                ctx.check(ok, construct, 'clipped rectangle only for the KML description of a tile (or passed through for it)', fn, c,
                          fail='%s asks for the tile rectangle clipped at the grid border (limit=%s): the image of a tile that hangs over the '
                               'border is taken for a smaller ground rectangle than it shows' % (fn.short, unparse(lim)))
    # the pass-through functions are only asked for the clipped form by the KML service
    for rel, mod in sorted(ctx.repo.modules.items()):
        if '/test/' in rel or not rel.startswith('mapproxy/'):
            continue
        for fn in ctx.repo.fns_in(rel + ':'):
            for c in fn.walk():
                if isinstance(c, ast.Call) and any(k.arg == 'limit' and const_value(k.value, 0) is True for k in c.keywords) and \
                        not (isinstance(c.func, ast.Attribute) and c.func.attr in ('tile_bbox', '_tile_wgs_bbox')):
                    ctx.check(rel == 'mapproxy/service/kml.py', '%s:limit-true-call' % fn.short, 'limit=True only in the KML service', fn, c)
    if n < 15:
        raise Undecided('only %d tile_bbox call sites found' % n)


@rule('C01.k', floor=2)
def c01k(ctx):
    """a tile source hands its tile on as the answer to the query, unresampled: the one tile that `get_affected_tiles` finds must *be* the
    requested rectangle, not merely contain it (a source grid with fewer or other levels answers with the nearest level it has).  On
    every path to `client.get_tile` the bbox of the affected tile has been compared with the bbox of the query (bbox_equals) and the
    grid of tiles with (1, 1)"""
    fn = ctx.fn('mapproxy/source/tile.py:TiledSource.get_map')
    g = fn.cfg
    defs = Defs(fn.node)
    gets = g.find(lambda x: is_call(x, 'self.client.get_tile'))
    if not gets:
        raise Undecided('TiledSource.get_map: client.get_tile call not found')
    aff = [(v, sel) for nm, ds in defs.defs.items() for v, sel in ds if is_call(v, 'self.grid.get_affected_tiles')]
    bbox_names = {nm for nm, ds in defs.defs.items() for v, sel in ds if is_call(v, 'self.grid.get_affected_tiles') and sel == 0}
    grid_names = {nm for nm, ds in defs.defs.items() for v, sel in ds if is_call(v, 'self.grid.get_affected_tiles') and sel == 1}

    def is_bbox_test(at):
        c = at.expr if at.op is None else None
        return c is not None and is_call(c, 'bbox_equals') and len(c.args) >= 2 and \
            {unparse(c.args[0]), unparse(c.args[1])} & bbox_names and 'query.bbox' in {unparse(c.args[0]), unparse(c.args[1])}
    ok = bool(aff) and bool(bbox_names) and all(g.guarded(n, is_bbox_test, True) for n, x in gets)
    ctx.check(ok, 'TiledSource.get_map:tile-is-the-requested-rectangle', 'the tile is only fetched when its bbox equals the bbox of the query', fn,
              fail='TiledSource.get_map answers with the tile that contains the query without comparing its bbox with the query bbox: a coarser '
                   'source level is handed on as if it were the requested tile')
    ok = bool(grid_names) and all(g.guarded(n, lambda at: at.op == '==' and {unparse(at.left), unparse(at.right)} & grid_names and
                                            '(1, 1)' in {unparse(at.left), unparse(at.right)}, True) for n, x in gets)
    ctx.check(ok, 'TiledSource.get_map:single-tile', 'the tile is only fetched when the query falls into exactly one tile', fn)


@rule('C01.l', floor=3)
def c01l(ctx):
    """a tile is cut with its own rectangle: where the tile manager walks over the tiles of a request and tests or clips each against
    the coverage of the cache, the rectangle used inside the loop body is `self.grid.tile_bbox(<this tile>.coord)`, computed in that
    iteration before it is used (a rectangle left over from an earlier loop, or hoisted out of the loop, places the clip edge of every
    tile where it belongs for one tile only)"""
    fn = ctx.fn('mapproxy/cache/tile.py:TileManager.load_tile_coords')
    g = fn.cfg
    n_sites = 0
    seen_names = {}
    for x in sorted((y for y in fn.walk() if isinstance(y, ast.Call)), key=lambda y: (y.lineno, y.col_offset)):
        bbox = None
        if is_call(x, 'mask_image_source_from_coverage') and len(x.args) > 1:
            bbox = x.args[1]
        elif isinstance(x.func, ast.Attribute) and x.func.attr in ('intersects', 'contains') and 'coverage' in unparse(x.func.value) and x.args:
            bbox = x.args[0]
        if bbox is None:
            continue
        loop = enclosing(x, ast.For)
        if loop is None or not isinstance(loop.target, ast.Name):
            continue
        n_sites += 1
        tv = loop.target.id
        ok = False
        seen_names[call_name(x).split('.')[-1]] = k_ = seen_names.get(call_name(x).split('.')[-1], 0) + 1
        if is_call(bbox, 'self.grid.tile_bbox') and bbox.args and unparse(bbox.args[0]) == tv + '.coord':
            ok = True
        elif isinstance(bbox, ast.Name):
            own = [s for s in ast.walk(loop) if isinstance(s, ast.Assign) and len(s.targets) == 1 and unparse(s.targets[0]) == bbox.id and
                   enclosing(s, ast.For) is loop]
            ok = bool(own) and all(is_call(s.value, 'self.grid.tile_bbox') and len(s.value.args) == 1 and not s.value.keywords and
                                   unparse(s.value.args[0]) == tv + '.coord' for s in own) and \
                any(g.dominates(g.node_for(s), g.node_for(x)) for s in own)
        ctx.check(ok, 'TileManager.load_tile_coords:%s#%d:own-rectangle' % (call_name(x).split('.')[-1], k_), 'the coverage is tested / the tile is clipped with tile_bbox(%s.coord) of the iteration' % tv,
                  fn, x, fail='%s(...) in the loop over the tiles uses a rectangle (%s) that is not computed from this tile in this iteration: '
                              'every tile is tested / clipped with the rectangle of another tile' % (call_name(x), unparse(bbox)))
    if n_sites < 3:
        raise Undecided('TileManager.load_tile_coords: only %d coverage tests / clips inside tile loops found' % n_sites)


@rule('C01.m', floor=2)
def c01m(ctx):
    """shared rule C17.b, re-evaluated for this property: what a reprojecting WMS source asks upstream -- the plain request and the
    coverage-clipped sub request alike -- is the query in the source SRS that was computed for the reprojection (bbox, size and SRS
    belong together; the client's query in its own SRS, sent to a server that is then reprojected from the source SRS, puts the content
    in the wrong place)"""
    from ..engine import share
    share(ctx, 'C17', {'C17.b'}, keep=lambda o: '_get_transformed' in o.construct)
