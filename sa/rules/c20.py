"""C20 -- conditional requests are honoured soundly.
Decided: the four tile handlers (TMS, WMTS, KML, WMS-C) follow one header protocol -- a
no-store call on the not-cacheable outcome that no path to the return avoids, validators
built from timestamp and size of the same served object, make_conditional only after the
validators were set (C20.a); make_conditional's decision table: 304 only for an equal ETag or
a known timestamp not newer than a parsed If-Modified-Since, the default of the
If-None-Match lookup can equal no ETag, 304 empties the body (C20.b); the ETag is a digest
over all elements of etag_data, no_cache sets no-store, Last-modified only from a truthy
timestamp (C20.c); size/timestamp capture on store and load (C20.d); error responses are
never cacheable (C20.e).
Added in round 4: images derived from an uncacheable image stay uncacheable (C20.k); a store
replaces the whole row, last_modified included (C20.l, shared C05.e); the compact cache records the
size of a loaded tile when metadata is asked for (C20.m); a refreshed tile does not keep the time
stamp and size of the tile it replaces (C20.n).
Added in round 5: only two digit years are expanded (C20.o); public headers only for cacheable WMS-C
results (C20.p); the fill image is not post-processed (C20.q); late tiles are loaded with metadata
(C20.r).
Added in round 6: the time stamp kept for If-Modified-Since is not cut to whole seconds (C20.s)."""
import ast

from ..engine import rule
from ..model import Undecided
from ..cfg import same, dotted, call_name, is_call, simple_name, unparse, const_value, contains, enclosing
from ..flow import Canon, expand, Defs, depends
from ..decide import table, ret_kind
from ..util import keyword, returns_of, calls_in, inside, order_key

NOT_DECIDED = 'stability of validators over a history of rewrites, clock behaviour, HTTP date parsing'

HANDLERS = [
    ('mapproxy/service/tile.py:TileServer.map', 'tile'),
    ('mapproxy/service/wmts.py:WMTSServer.tile', 'tile'),
    ('mapproxy/service/kml.py:KMLServer.map', 'tile'),
    ('mapproxy/service/wms.py:WMSServer.map', 'result'),
]


_CACHEABLE_LOCALS = set()


def _cacheable_atom(at):
    """a test on <o>.cacheable, or on a local that was bound to <o>.cacheable"""
    return at.mentions(lambda x: (isinstance(x, ast.Attribute) and x.attr == 'cacheable') or
                       (isinstance(x, ast.Name) and x.id in _CACHEABLE_LOCALS))


@rule('C20.a', floor=12)
def c20a(ctx):
    for qn, obj in HANDLERS:
        fn = ctx.fn(qn)
        g = fn.cfg
        fdefs = Defs(fn.node)
        _CACHEABLE_LOCALS.clear()
        _CACHEABLE_LOCALS.update(k for k, ds in fdefs.defs.items() if ds and all(
            sel is None and isinstance(v, ast.Attribute) and v.attr == 'cacheable' for v, sel in ds))
        ch = g.find(lambda x: is_call(x, 'resp.cache_headers', 'cache_headers'))
        nocache = [(n, x) for n, x in ch if const_value(keyword(x, 'no_cache', 3)) is True]
        valid = [(n, x) for n, x in ch if keyword(x, 'etag_data', 1) is not None]
        mc = g.find(lambda x: is_call(x, 'make_conditional'))
        # (i) no_cache on the not-cacheable outcome, unavoidable
        ok = False
        why = 'no cache_headers(no_cache=True) call: an error tile that must not be cached is sent with public max-age and a constant ETag'
        for n, x in nocache:
            if g.guarded(n, lambda at: at.op is None and _cacheable_atom(at), False):
                # every path taking the not-cacheable edge passes the no_cache call before the return:
                edges = g.guard_edges(lambda at: at.op is None and _cacheable_atom(at), False)
                ok = all(not _reach_exit_avoiding(g, d, n) for s, d in edges)
                why = 'a path from the not-cacheable outcome reaches the return without cache_headers(no_cache=True)'
        ctx.check(ok, '%s:no-store-when-not-cacheable' % fn.short,
                  'cache_headers(no_cache=True) is reached on every path of the `not %s.cacheable` outcome' % obj, fn,
                  fail=why)
        # (ii) validators from the same object
        cf = Canon(fn)
        for n, x in valid:
            ed = cf.expr(keyword(x, 'etag_data', 1))
            ts = x.args[0] if x.args else keyword(x, 'timestamp')
            ts = cf.expr(ts) if ts is not None else None
            ok = isinstance(ed, ast.Tuple) and len(ed.elts) == 2 and all(isinstance(e, ast.Attribute) for e in ed.elts)
            if ok:
                bases = {unparse(e.value) for e in ed.elts} | ({unparse(ts.value)} if isinstance(ts, ast.Attribute) else {'?'})
                attrs = [e.attr for e in ed.elts]
                ok = len(bases) == 1 and attrs == ['timestamp', 'size'] and isinstance(ts, ast.Attribute) and ts.attr == 'timestamp'
            ctx.check(ok, '%s:validators-from-one-object' % fn.short,
                      'cache_headers(<o>.timestamp, etag_data=(<o>.timestamp, <o>.size)) with one object <o>', fn, x,
                      fail='the validators are not (timestamp, size) of one and the same served object: %s' % unparse(x)[:90])
            ma = keyword(x, 'max_age', 2)
            ctx.check(ma is not None and same(ma, 'self.max_tile_age'), '%s:max-age-configured' % fn.short, 'max_age is the configured tile age', fn, x)
        if not valid:
            ctx.bad('%s:validators-from-one-object' % fn.short, 'no cache_headers(..., etag_data=...) call', fn)
        # (iii) make_conditional after validators
        for n, x in mc:
            ok = bool(ch) and not g.reaches_avoiding(0, n, avoid={c for c, _ in ch})
            ctx.check(ok, '%s:conditional-after-validators' % fn.short,
                      'make_conditional runs only after cache_headers set the validators on that path', fn, x,
                      fail='make_conditional can run before the validators are set (compares against no/stale ETag)')
            a = x.args[0] if x.args else None
            ctx.check(a is not None and unparse(a).endswith('.http'), '%s:conditional-on-request' % fn.short,
                      'make_conditional receives the HTTP request of this handler', fn, x)
        if not mc:
            ctx.bad('%s:conditional-after-validators' % fn.short, 'handler never calls make_conditional', fn)


def _reach_exit_avoiding(g, start, avoid_node):
    """normal-path reachability of EXIT from `start` without passing avoid_node"""
    if start == avoid_node:
        return False
    seen, stack = set(), [start]
    while stack:
        k = stack.pop()
        if k == g.EXIT:
            return True
        if k in seen or k == avoid_node:
            continue
        seen.add(k)
        for d in g.succ[k]:
            if (k, d) in g.exc_edges:
                continue
            stack.append(d)
    return False


@rule('C20.b', floor=5)
def c20b(ctx):
    fn = ctx.fn('mapproxy/response.py:Response.make_conditional')
    g = fn.cfg
    defs = Defs(fn.node)

    def ev(st):
        if isinstance(st, ast.Assign) and unparse(st.targets[0]) == 'self.status':
            return '304' if const_value(st.value) == 304 else 'status-other'
        if isinstance(st, ast.Assign) and unparse(st.targets[0]) == 'self.response':
            return 'empty' if isinstance(st.value, (ast.List, ast.Tuple, ast.Constant)) and not getattr(st.value, 'elts', None) and \
                const_value(st.value, '') in ('', b'', None) else 'body-other'
        return None
    # abstract run of the whole method (the not-modified flag, however it is called or computed, is followed)
    tab = ctx.rows(table(fn.node.body, lambda n: 'return' if isinstance(n, ast.Return) else 'go', event_of=ev))
    objs = tab.atom_objs
    parsed_names = {k for k, ds in defs.defs.items() if any(contains(v, lambda x: is_call(x, 'parse_httpdate')) for v, sel in ds)}
    a_req = [a for a in tab.atoms if objs[a].op == '==' and {unparse(objs[a].left), unparse(objs[a].right)} == {fn.params[1], 'None'}]
    a_et = [a for a in tab.atoms if 'etag' in a.lower() and objs[a].op == '==']
    a_ts = [a for a in tab.atoms if '_timestamp' in a and objs[a].op == '==' and 'None' in a]
    a_pd = [a for a in tab.atoms if objs[a].op == '==' and 'None' in a and
            ({unparse(objs[a].left), unparse(objs[a].right)} & parsed_names or 'parse_httpdate' in a)]
    a_cmp = [a for a in tab.atoms if objs[a].op == '<' and '_timestamp' in a]
    rows_ok = False
    if not (len(a_et) == 1 and len(a_ts) == 1 and len(a_pd) == 1 and len(a_cmp) == 1 and len(a_req) <= 1):
        ctx.bad('Response.make_conditional:table', 'expected atoms etag==If-None-Match, _timestamp is None, parsed date is None, '
                'timestamp comparison; found %s' % tab.atoms, fn)
    else:
        at = objs[a_cmp[0]]
        bad = []
        st_bad, body_bad, other = [], [], []
        for asg, out, events in tab.assignments():
            if a_req and asg[a_req[0]]:
                if events:
                    other.append(asg)
                continue
            etag = asg[a_et[0]]
            ts_known = not asg[a_ts[0]]
            parsed = not asg[a_pd[0]]
            if '_timestamp' in unparse(at.right):
                not_newer = not asg[a_cmp[0]]    # date < ts == modified since
            else:
                not_newer = asg[a_cmp[0]]        # ts < date : strictly older (also sound)
            want = etag or (ts_known and parsed and not_newer)
            if ('304' in events) != want:
                bad.append((asg, events))
            if want and '304' not in events:
                st_bad.append(asg)
            if want and 'empty' not in events:
                body_bad.append(asg)
            if 'status-other' in events or (not want and ('304' in events or 'empty' in events or 'body-other' in events)):
                other.append(asg)
        rows_ok = not bad
        ctx.check(not bad, 'Response.make_conditional:table',
                  '304 <=> ETag equals If-None-Match, or (timestamp known and date parsed and timestamp not newer than the date) (%d rows)' % len(tab.rows),
                  fn, fail='make_conditional marks the response not-modified for other header combinations, e.g. %s' % (bad[:1],))
        ctx.check(not st_bad, 'Response.make_conditional:status-304', 'not modified => status 304', fn)
        ctx.check(not body_bad, 'Response.make_conditional:empty-body', 'not modified => the body is emptied', fn,
                  fail='a 304 response keeps its body')
        ctx.check(not other, 'Response.make_conditional:status-only-there', 'status and body are changed for no other combination', fn)
    # default of the If-None-Match lookup
    gets = [x for x in fn.walk() if is_call(x, 'get') and x.args and const_value(x.args[0]) == 'HTTP_IF_NONE_MATCH']
    ok = bool(gets)
    for x in gets:
        d = x.args[1] if len(x.args) > 1 else ast.Constant(value=None)
        v = const_value(d, 'nonconst')
        ok = ok and v != 'nonconst' and v is not None and not isinstance(v, str)
    ctx.check(ok, 'Response.make_conditional:inm-default', 'the default for a missing If-None-Match can equal no ETag (neither None nor a string)', fn,
              fail='a missing If-None-Match header defaults to a value that equals the ETag of a response without ETag (None): 304 without any validator')
    pd = ctx.fn('mapproxy/util/times.py:parse_httpdate')
    g2 = pd.cfg
    ok = any(isinstance(s, ast.If) and contains(s.test, lambda x: isinstance(x, ast.Constant) and x.value is None) and
             any(isinstance(b, ast.Return) and const_value(b.value, 1) is None for b in s.body) for s in pd.walk())
    ctx.check(ok, 'parse_httpdate:none-for-unparsable', 'an unparsable date yields None', pd)


@rule('C20.c', floor=5)
def c20c(ctx):
    fn = ctx.fn('mapproxy/response.py:Response.cache_headers')
    g = fn.cfg
    defs = Defs(fn.node)
    et = [s for s in fn.walk() if isinstance(s, ast.Assign) and unparse(s.targets[0]) == 'self.etag']
    ok = len(et) == 1 and depends(et[0].value, lambda x: is_call(x, 'hexdigest'), defs)
    if ok:
        # digest source iterates over all of etag_data
        src = [Canon(fn).expr(et[0].value)]          # closed form of the digest expression
        ok = all(contains(v, lambda x: isinstance(x, (ast.GeneratorExp, ast.ListComp)) and same(x.generators[0].iter, 'etag_data') and not x.generators[0].ifs)
                 or contains(v, lambda x: is_call(x, 'map') and len(x.args) == 2 and same(x.args[1], 'etag_data')) for v in src)
    ctx.check(ok, 'Response.cache_headers:etag-over-all-data', 'the ETag is a digest over every element of etag_data', fn,
              fail='the ETag does not cover all elements of etag_data (e.g. size only): a rewritten tile keeps its validator')
    sets = g.find_stmts(lambda s: isinstance(s, ast.Assign) and isinstance(s.targets[0], ast.Subscript) and
                        const_value(s.targets[0].slice) == 'Cache-Control' and isinstance(s.value, ast.Constant) and 'no-store' in str(s.value.value))
    ok = bool(sets) and all(g.guarded(n, lambda at: at.op is None and same(at.expr, 'no_cache'), True) for n in sets)
    ctx.check(ok, 'Response.cache_headers:no-store', 'no_cache sets Cache-Control: no-cache, no-store', fn,
              fail='the no_cache branch does not set a no-store directive')
    asserts = [s for s in fn.walk() if isinstance(s, ast.Assert)]
    ok = any(contains(a.test, lambda x: isinstance(x, ast.Name) and x.id == 'timestamp') and contains(a.test, lambda x: isinstance(x, ast.Name) and x.id == 'max_age')
             for a in asserts)
    ctx.check(ok, 'Response.cache_headers:no-cache-exclusive', 'no_cache is asserted not to be combined with timestamp/max_age', fn)
    pub = g.find_stmts(lambda s: isinstance(s, ast.Assign) and isinstance(s.targets[0], ast.Subscript) and
                       contains(s.value, lambda x: isinstance(x, ast.Constant) and isinstance(x.value, str) and 'max-age' in x.value))
    ok = bool(pub) and all(g.guarded(n, lambda at: at.op == '==' and 'max_age' in (unparse(at.left), unparse(at.right)), False) for n in pub)
    ctx.check(ok, 'Response.cache_headers:public-needs-max-age', 'public max-age is only sent when max_age is given', fn)
    lm = ctx.fn('mapproxy/response.py:Response._last_modified_set')
    g2 = lm.cfg
    hs = g2.find_stmts(lambda s: isinstance(s, ast.Assign) and isinstance(s.targets[0], ast.Subscript) and const_value(s.targets[0].slice) == 'Last-modified')
    ok = bool(hs) and all(g2.guarded(n, lambda at: at.op is None and same(at.expr, 'date'), True) for n in hs)
    ctx.check(ok, 'Response._last_modified_set:truthy-only', 'Last-modified is only set from a truthy timestamp', lm)


@rule('C20.d', floor=5)
def c20d(ctx):
    tb = ctx.fn('mapproxy/cache/base.py:tile_buffer')
    g = tb.cfg
    sz = [s for s in tb.walk() if isinstance(s, ast.Assign) and unparse(s.targets[0]) == 'tile.size']
    ok = len(sz) == 1 and is_call(sz[0].value, 'tell')
    ctx.check(ok, 'tile_buffer:size', 'tile.size is the number of bytes handed to the store', tb)
    ts = g.find_stmts(lambda s: isinstance(s, ast.Assign) and unparse(s.targets[0]) == 'tile.timestamp')
    ok = bool(ts) and all(g.guarded(n, lambda at: at.op is None and same(at.expr, 'tile.timestamp'), False) and is_call(g.stmt[n].value, 'time.time') for n in ts)
    ctx.check(ok, 'tile_buffer:timestamp-if-unset', 'tile.timestamp is set to now only if it was not set', tb)
    st = [s for s in tb.walk() if isinstance(s, ast.Assign) and unparse(s.targets[0]) == 'tile.stored' and const_value(s.value) is True]
    ctx.check(bool(st), 'tile_buffer:stored', 'the tile is marked stored', tb)
    fm = ctx.fn('mapproxy/cache/file.py:FileCache.load_tile_metadata')
    defs = Defs(fm.node)
    a = [s for s in fm.walk() if isinstance(s, ast.Assign) and unparse(s.targets[0]) in ('tile.timestamp', 'tile.size') and isinstance(s.value, ast.Attribute)]
    ok = len(a) == 2 and len({unparse(s.value.value) for s in a}) == 1 and {s.value.attr for s in a} == {'st_mtime', 'st_size'}
    if ok:
        # a `None` sentinel for "file vanished" may be a second binding; the attributes are only read from the stat result
        src = [d for d in defs.of(unparse(a[0].value.value)) if not (isinstance(d[0], ast.Constant) and d[0].value is None)]
        # lstat: a single-colour tile is a link to a shared file; its validators are those of the link (written when this
        # address was stored), not of the old shared file
        ok = len(src) == 1 and is_call(src[0][0], 'os.lstat')
        for s in a:
            ok = ok and {'tile.timestamp': 'st_mtime', 'tile.size': 'st_size'}[unparse(s.targets[0])] == s.value.attr
    ctx.check(ok, 'FileCache.load_tile_metadata:one-stat', 'timestamp and size are read from one lstat result (mtime -> timestamp, size -> size)', fm,
              fail='the validators are not taken from one os.lstat() of the tile location: for a linked single-colour tile Last-Modified/ETag '
                   'come from the old shared file, a rewritten address is answered 304 for the validator of its previous content')
    tr = ctx.fn('mapproxy/service/tile.py:TileResponse.__init__')
    want = {'self.timestamp': 'tile.timestamp', 'self.size': 'tile.size', 'self.cacheable': 'tile.cacheable'}
    # (closed forms: a value may pass through a local on its way from the tile to the response)
    got = {unparse(s.targets[0]): tr.ctext(s.value, at=tr.cfg.node_for(s)) for s in tr.walk() if isinstance(s, ast.Assign)}
    ok = all(got.get(k) == v for k, v in want.items())
    ctx.check(ok, 'TileResponse.__init__:copies-validators', 'TileResponse copies timestamp, size and cacheable from the tile', tr,
              fail='TileResponse does not take timestamp/size/cacheable from the tile it wraps: %s' % {k: got.get(k) for k in want})
    ci = ctx.fn('mapproxy/cache/tile.py:Tile._cacheable_get')
    rets = returns_of(ci.node)
    ok = bool(rets) and all(is_call(r.value, 'CacheInfo') and unparse(keyword(r.value, 'cacheable', 0)) == 'self._cacheable' for r in rets)
    ctx.check(ok, 'Tile.cacheable:reports-flag', 'Tile.cacheable reports the stored cacheable flag', ci)


@rule('C20.e', floor=1)
def c20e(ctx):
    fn = ctx.fn('mapproxy/exception.py:RequestError.render')
    g = fn.cfg
    nc = g.find(lambda x: is_call(x, 'cache_headers') and const_value(keyword(x, 'no_cache', 3)) is True)
    rets = g.find_stmts(lambda s: isinstance(s, ast.Return))
    ok = bool(nc) and bool(rets) and all(any(g.dominates(n, r) for n, _ in nc) for r in rets)
    ctx.check(ok, 'RequestError.render:no-store', 'every error response leaves render() with cache_headers(no_cache=True)', fn,
              fail='an error response can be returned without no-store headers')


@rule('C20.f', floor=4)
def c20f(ctx):
    """results that must not be cached are never stored: every cache store of a creator is guarded by the cacheable flag
    of what was fetched"""
    T = 'mapproxy/cache/tile.py'
    for qn, flag in ((T + ':TileCreator._create_single_tile', 'source.cacheable'), (T + ':TileCreator._create_meta_tile', 'meta_tile_image.cacheable')):
        fn = ctx.fn(qn)
        g = fn.cfg
        stores = g.find(lambda x: is_call(x, 'self.cache.store_tile', 'self.cache.store_tiles'))
        ok = bool(stores) and all(g.guarded(n, lambda at: at.op is None and unparse(at.expr).endswith('.cacheable') and not unparse(at.expr).startswith('self.'), True)
                                  for n, x in stores)
        ctx.check(ok, '%s:store-only-cacheable' % fn.short, 'the store is guarded by `%s`' % flag, fn,
                  fail='an uncacheable result (an error image produced by on_error handling) is written to the cache, or cacheable ones are not')
    fn = ctx.fn(T + ':TileCreator._create_single_tile')
    sets = [s for s in fn.walk() if isinstance(s, ast.Assign) and unparse(s.targets[0]) == 'tile.cacheable']
    ok = bool(sets) and all(same(s.value, 'source.cacheable') for s in sets)
    ctx.check(ok, 'TileCreator._create_single_tile:flag-propagated', 'the tile carries the cacheable flag of the fetched image (it reaches the response headers)', fn,
              fail='the cacheable flag of the fetched image is not copied to the tile: an error tile is served with public cache headers')
    # the bulk creator builds its tiles one by one from the images it fetched: each carries the flag of its own image
    fb = ctx.fn(T + ':TileCreator._create_bulk_meta_tile')
    tcs = [x for x in fb.walk_all() if is_call(x, 'Tile') and len(x.args) + len(x.keywords) >= 2]
    ok = bool(tcs) and all(keyword(x, 'cacheable', 2) is not None and unparse(keyword(x, 'cacheable', 2)).endswith('.cacheable') and
                           not unparse(keyword(x, 'cacheable', 2)).startswith('self.') for x in tcs)
    ctx.check(ok, 'TileCreator._create_bulk_meta_tile:flag-propagated', 'each tile of a bulk meta tile carries the cacheable flag of the image fetched for it', fb,
              fail='the bulk creator builds its tiles without the cacheable flag of the fetched image (default: cacheable): an uncached error image '
                   'is written over the old tile and served as a regular tile')
    sm = ctx.fn(T + ':split_meta_tiles')
    tc = [x for x in sm.walk() if is_call(x, 'Tile')]
    ok = bool(tc) and all(unparse(keyword(x, 'cacheable') or ast.Constant(value=None)) == '%s.cacheable' % sm.params[0] for x in tc)
    ctx.check(ok, 'split_meta_tiles:flag-propagated', 'tiles cut from a meta tile inherit its cacheable flag', sm,
              fail='tiles cut from an uncacheable meta tile are marked cacheable')
    # the meta tile creators return *new* tile objects; the manager copies them into the collection it hands to the services:
    # wherever the image of a created tile is copied, its cacheable mark is copied with it
    lt = ctx.fn(T + ':TileManager._load_tile_coords')
    ldefs = Defs(lt.node)
    n = 0
    for lp in [l for l in lt.walk() if isinstance(l, ast.For) and isinstance(l.target, ast.Name)]:
        created = any(contains(e, lambda x: is_call(x, 'create_tiles')) for e in expand(lp.iter, ldefs))
        if not created:
            continue
        tv = lp.target.id
        for st in [x for x in ast.walk(lp) if isinstance(x, ast.Assign) and isinstance(x.targets[0], ast.Attribute) and x.targets[0].attr == 'source'
                   and unparse(x.value) == tv + '.source']:
            n += 1
            dst = unparse(st.targets[0].value)
            blk = [b for b in ast.walk(lp) if isinstance(b, (ast.If, ast.For)) and st in getattr(b, 'body', [])] or [lp]
            flag = [x for x in blk[0].body if isinstance(x, ast.Assign) and unparse(x.targets[0]) == dst + '.cacheable' and
                    contains(x.value, lambda y: isinstance(y, ast.Attribute) and y.attr == 'cacheable' and unparse(y.value) == tv)]
            ctx.check(bool(flag), 'TileManager._load_tile_coords:flag-copied-with-source', 'the cacheable mark of a created tile is copied together with its image',
                      lt, st, fail='the image of a created tile is copied into the returned collection without its cacheable mark: on the meta tile '
                      'paths an uncached error image (on_error ... cache: false) reaches the tile services as cacheable and is sent with public '
                      'cache headers and an ETag instead of no-store')
    if not n:
        ctx.bad('TileManager._load_tile_coords:flag-copied-with-source', 'the copy of created tiles into the returned collection was not found', lt)


@rule('C20.g', floor=2)
def c20g(ctx):
    pd = ctx.fn('mapproxy/util/times.py:parse_httpdate')
    g = pd.cfg
    nones = g.find_stmts(lambda s: isinstance(s, ast.Return) and const_value(s.value, 1) is None)
    isnone = lambda at: at.op == '==' and 'date' in at.text and 'None' in at.text
    ok = bool(nones) and all(g.guarded(n, isnone, True) for n in nones)
    others = [r for r in g.find_stmts(lambda s: isinstance(s, ast.Return)) if r not in nones]
    ok = ok and bool(others) and all(g.guarded(r, isnone, False) for r in others)
    ctx.check(ok, 'parse_httpdate:none-iff-unparsable', 'None is returned exactly when the date could not be parsed', pd,
              fail='parse_httpdate returns a timestamp for an unparsable date (or None for a valid one): If-Modified-Since is evaluated against garbage')
    mc = ctx.fn('mapproxy/response.py:Response.make_conditional')
    cf = Canon(mc)
    # the ordering comparison one side of which is (in closed form) the time stamp of the response
    cmps = [c for c in mc.walk() if isinstance(c, ast.Compare) and len(c.ops) == 1 and isinstance(c.ops[0], (ast.Lt, ast.LtE, ast.Gt, ast.GtE)) and
            any('_timestamp' in mc.ctext(e) for e in (c.left, c.comparators[0]))]
    ok = bool(cmps)
    for c in cmps:
        other = c.comparators[0] if '_timestamp' in mc.ctext(c.left) else c.left
        v = cf.expr(other)
        ok = ok and is_call(v, 'parse_httpdate') and len(v.args) == 1 and is_call(v.args[0], 'get') and \
            const_value(v.args[0].args[0]) == 'HTTP_IF_MODIFIED_SINCE' and 'environ' in unparse(v.args[0].func.value)
    ctx.check(ok, 'Response.make_conditional:ims-source', 'the date compared is parse_httpdate(If-Modified-Since header)', mc)


@rule('C20.h', floor=3)
def c20h(ctx):
    """HTTP dates are GMT on both sides; a merged image is cacheable only if every layer image is"""
    pd = ctx.fn('mapproxy/util/times.py:parse_httpdate')
    conv = [x for x in pd.walk() if isinstance(x, ast.Call) and simple_name(x) in ('timegm', 'mktime')]
    ok = bool(conv) and all(simple_name(x) == 'timegm' for x in conv)
    ctx.check(ok, 'parse_httpdate:gmt', 'If-Modified-Since is converted with calendar.timegm (HTTP dates are GMT)', pd,
              fail='parse_httpdate interprets the GMT date of the client as local time (mktime): west of UTC a tile rewritten hours later is answered 304')
    fd = ctx.fn('mapproxy/util/times.py:format_httpdate')
    ok = any(is_call(x, 'format_date_time') for x in fd.walk())
    ctx.check(ok, 'format_httpdate:gmt', 'Last-Modified is written with wsgiref format_date_time (GMT)', fd)
    cands = [f for f in ctx.repo.fns_in('mapproxy/image/merge.py:LayerMerger.merge') if any(is_call(x, 'mask_image') for x in f.walk())]
    if not cands:
        raise Undecided('LayerMerger.merge not found')
    mg = cands[0]
    g = mg.cfg
    defs = Defs(mg.node)
    res = [x for x in mg.walk() if is_call(x, 'ImageSource') and keyword(x, 'cacheable') is not None]
    ok = bool(res) and all(unparse(keyword(x, 'cacheable')) == 'cacheable' for x in res)
    falses = g.find_stmts(lambda s: isinstance(s, ast.Assign) and unparse(s.targets[0]) == 'cacheable' and const_value(s.value, 1) is False)
    form_loop = bool(falses) and all(g.guarded(n, lambda at: at.op is None and unparse(at.expr).endswith('.cacheable') and 'self' not in unparse(at.expr), False) and
                                     enclosing(g.stmt[n], ast.For) is not None and same(enclosing(g.stmt[n], ast.For).iter, 'self.layers') for n in falses)
    vals = [v for v, sel in defs.of('cacheable') if sel is None]
    form_all = any(contains(v, lambda x: is_call(x, 'all')) for v in vals) and not any(contains(v, lambda x: is_call(x, 'any')) for v in vals)
    start = any(same(v, 'self.cacheable') or 'self.cacheable' in unparse(v) for v in vals)
    ctx.check(ok and (form_loop or form_all) and start, 'LayerMerger.merge:cacheable-iff-all-layers',
              'the merged image is cacheable only if the merger is and every layer image is (one uncacheable layer makes the result uncacheable)', mg,
              fail='a merged image containing an uncacheable (error fill) layer is reported cacheable: it is stored and sent with public cache headers')


@rule('C20.i', floor=1)
def c20i(ctx):
    """the "do not cache" mark survives a cache that is used as the source of another cache: where CacheMapLayer.get_map pastes the
    part of the answer that lies inside its extent into a larger image (SubImageSource), the new image inherits `cacheable` from the
    image it wraps -- otherwise an upstream error that was mapped to an uncached fill image is stored by the outer cache and served
    with validators"""
    fn = ctx.fn('mapproxy/layer.py:CacheMapLayer.get_map')
    wraps = [x for x in fn.walk() if is_call(x, 'SubImageSource') and x.args]
    if not wraps:
        ctx.ok('CacheMapLayer.get_map:no-wrapper', 'the answer is never wrapped into another image', fn)
        return
    for x in wraps:
        inner = unparse(x.args[0])
        c = keyword(x, 'cacheable', 4)
        ok = c is not None and fn.ctext(c) in ('%s.cacheable' % fn.ctext(x.args[0]), '%s.cacheable' % inner)
        ctx.check(ok, 'CacheMapLayer.get_map:wrapper-inherits-cacheable', 'SubImageSource(%s, ..., cacheable=%s.cacheable)' % (inner, inner), fn, x,
                  fail='the image that wraps %s is created with the default cacheable=True: an uncached error image becomes cacheable on its way '
                       'through a cache that is used as a source' % inner)


@rule('C20.j', floor=2)
def c20j(ctx):
    """the validators of a tile change when the tile is rewritten: the sqlite backends have no (or only a one-second) time stamp per
    tile, the ETag relies on the tile *size* that the bulk load records.  Every path through load_tiles that delivers a tile sets
    tile.size -- a shortcut through load_tile (which records none) yields the same ETag for every version of the tile"""
    for rel, cname in (('mapproxy/cache/mbtiles.py', 'MBTilesCache'), ('mapproxy/cache/geopackage.py', 'GeopackageCache')):
        fn = ctx.fn('%s:%s.load_tiles' % (rel, cname))
        single = ctx.fn('%s:%s.load_tile' % (rel, cname))
        sets_size = lambda f: any(isinstance(s, ast.Assign) and any(isinstance(t, ast.Attribute) and t.attr == 'size' for t in s.targets) for s in f.walk())
        sources = [s for s in fn.walk() if isinstance(s, ast.Assign) and any(isinstance(t, ast.Attribute) and t.attr == 'source' for t in s.targets)]
        ok = bool(sources) and sets_size(fn)
        g = fn.cfg
        sizes = [g.node_of[id(s)] for s in fn.walk() if isinstance(s, ast.Assign) and id(s) in g.node_of and
                 any(isinstance(t, ast.Attribute) and t.attr == 'size' for t in s.targets)]
        for s in sources:
            n = g.node_of.get(id(s))
            # the size is recorded next to the source: no way from the source assignment to the end of the iteration that avoids it
            ok = ok and n is not None and any(g.dominates(n, z) or g.dominates(z, n) for z in sizes)
        delegs = [x for x in fn.walk() if is_call(x, 'self.load_tile')]
        ok = ok and (not delegs or sets_size(single))
        ctx.check(ok, '%s.load_tiles:size-recorded' % cname, 'every tile delivered by the bulk load has its size recorded (ETag input)', fn,
                  fail='%s.load_tiles delivers tiles without recording their size%s: the ETag of a tile does not change when the tile is rewritten '
                       '(304 for outdated content)' % (cname, ' (shortcut through load_tile)' if delegs else ''))


DERIVED_IMAGE_SITES = [
    # (function, constructor, what its `cacheable` must come from)
    ('mapproxy/image/merge.py:BandMerger.merge', 'ImageSource', 'all-sources'),
    ('mapproxy/image/tile.py:TileSplitter.get_tile', 'ImageSource', 'self.cacheable'),
]


@rule('C20.k', floor=4)
def c20k(ctx):
    """the "do not cache" mark of an image survives every image that is made from it: a band merge of uncacheable sources and a tile
    cut out of an uncacheable meta tile are uncacheable themselves (like the results of LayerMerger.merge, TileMerger.merge and
    ImageTransformer.transform, C20.h / C20.i).  A derived image built with the default cacheable=True is stored by the cache that
    asked for it and sent with validators: the error fill image outlives the upstream error"""
    bm = ctx.fn('mapproxy/image/merge.py:BandMerger.merge')
    srcs = bm.params[1]
    res = [x for x in bm.walk() if is_call(x, 'ImageSource')]
    ok = bool(res)
    for x in res:
        c = keyword(x, 'cacheable')
        form = bm.canon.expr(c) if c is not None else None
        good = form is not None and contains(form, lambda y: is_call(y, 'all') and y.args and isinstance(y.args[0], (ast.GeneratorExp, ast.ListComp)) and
                                             same(y.args[0].generators[0].iter, srcs) and not y.args[0].generators[0].ifs and
                                             isinstance(y.args[0].elt, ast.Attribute) and y.args[0].elt.attr == 'cacheable') and \
            not contains(form, lambda y: is_call(y, 'any'))
        ok = ok and good
    ctx.check(ok, 'BandMerger.merge:cacheable-iff-all-sources', 'the band-merged image is cacheable only if every source image is', bm,
              fail='BandMerger.merge builds its result with cacheable=True whatever the sources are: an uncached error image of a band source is stored')
    ts = ctx.fn('mapproxy/image/tile.py:TileSplitter.get_tile')
    init = ctx.fn('mapproxy/image/tile.py:TileSplitter.__init__')
    res = [x for x in ts.walk() if is_call(x, 'ImageSource')]
    ok = bool(res) and all(keyword(x, 'cacheable') is not None and same(keyword(x, 'cacheable'), 'self.cacheable') for x in res)
    mt = init.params[1]
    sets = [s for s in init.walk() if isinstance(s, ast.Assign) and unparse(s.targets[0]) == 'self.cacheable']
    ok = ok and bool(sets) and all(same(s.value, '%s.cacheable' % mt) for s in sets)
    ctx.check(ok, 'TileSplitter.get_tile:inherits-cacheable', 'a tile cut out of a meta tile image carries the cacheable flag of that image', ts,
              fail='the image of a tile cut from a meta tile is built with cacheable=True: a cache that uses the meta tiled cache as its source reads '
                   'that mark (TileMerger) and stores an uncached error image')
    # the readers of the mark
    tm = ctx.fn('mapproxy/image/tile.py:TileMerger.merge')
    g = tm.cfg
    falses = g.find_stmts(lambda s: isinstance(s, ast.Assign) and unparse(s.targets[0]) == 'cacheable' and const_value(s.value, 1) is False)
    ok = bool(falses) and all(g.guarded(n, lambda at: at.op is None and unparse(at.expr).endswith('.cacheable'), False) for n in falses)
    res = [x for x in tm.walk() if is_call(x, 'ImageSource') and keyword(x, 'cacheable') is not None]
    ok = ok and bool(res) and all(unparse(keyword(x, 'cacheable')) == 'cacheable' for x in res)
    ctx.check(ok, 'TileMerger.merge:cacheable-iff-all-tiles', 'the image merged from tiles is cacheable only if every tile image is', tm)
    it = ctx.fn('mapproxy/image/transform.py:ImageTransformer.transform')
    sets = [s for s in it.walk() if isinstance(s, ast.Assign) and unparse(s.targets[0]).endswith('.cacheable')]
    ok = bool(sets) and all(unparse(s.value).endswith('.cacheable') and unparse(s.value).split('.')[0] in it.params for s in sets)
    ctx.check(ok, 'ImageTransformer.transform:inherits-cacheable', 'a transformed image carries the cacheable flag of its source image', it)


@rule('C20.l', floor=2)
def c20l(ctx):
    """shared rule, re-evaluated for this property: the validators of a tile change when the tile is rewritten -- a store to an address
    that already holds a tile replaces the whole row, last_modified included (C05.e overwrites-whole-row); with the old time stamp
    (and the same size) a client that revalidates the old version is answered 304"""
    from ..engine import run_property
    sub = run_property(ctx.repo, 'C05', ctx.tier, only={'C05.e'})
    for er in sub.errors:
        raise Undecided('shared rule %s: %s' % er)
    for o in sub.obs:
        if 'overwrites-whole-row' not in o.construct:
            continue
        (ctx.ok if o.status == 'ok' else ctx.bad)('%s:%s' % (o.rule, o.construct), o.msg, o.where)
    ctx.stats['functions'] |= {q for q in sub.stats['functions'] if '_store_bulk' in q}


@rule('C20.m', floor=4)
def c20m(ctx):
    """a tile service never sends the same validator for every tile: the compact cache has no time stamp per tile, its validator is
    the size of the stored record.  Wherever a bundle delivers a tile (sets .source) while metadata is asked for, it records the size
    next to it, and the cache hands `with_metadata` on to its bundles -- otherwise timestamp and size stay None and the ETag of every
    tile is md5("NoneNone"): 304 for any client that revalidates, whatever is stored now"""
    C = 'mapproxy/cache/compact.py'
    for qn in (C + ':BundleV1.load_tiles', C + ':BundleV2._load_tile'):
        fn = ctx.fn(qn)
        g = fn.cfg
        sources = g.find_stmts(lambda s: isinstance(s, ast.Assign) and any(isinstance(t, ast.Attribute) and t.attr == 'source' for t in s.targets))
        sizes = g.find_stmts(lambda s: isinstance(s, ast.Assign) and any(isinstance(t, ast.Attribute) and t.attr == 'size' for t in s.targets))
        ok = bool(sources) and bool(sizes) and 'with_metadata' in fn.params
        for s_ in sources:
            gs = {(at.text, p) for at, p in g.guards_of(s_)}
            good = False
            for z in sizes:
                extra = {(at.text, p) for at, p in g.guards_of(z)} - gs
                # recorded right where the tile is delivered, under no other condition than "metadata is wanted"
                if is_call(g.stmt[z].value, 'len') and g.dominates(s_, z) and extra <= {('with_metadata', True)}:
                    good = True
            ok = ok and good
        ctx.check(ok, '%s:size-recorded-with-metadata' % fn.short, 'a tile delivered with metadata has the size of its record', fn,
                  fail='%s delivers tiles without recording their size when metadata is asked for: every tile of the cache has the same ETag' % fn.short)
    base = ctx.repo.cls(C + ':CompactCacheBase')
    for m in ('load_tile', 'load_tiles'):
        fn = ctx.fn('%s:CompactCacheBase.%s' % (C, m))
        calls = [x for x in fn.walk() if isinstance(x, ast.Call) and isinstance(x.func, ast.Attribute) and x.func.attr in ('load_tile', 'load_tiles') and
                 not (isinstance(x.func.value, ast.Name) and x.func.value.id == 'self' and m == 'load_tile')]
        ok = bool(calls) and all(keyword(x, 'with_metadata', 1) is not None and same(keyword(x, 'with_metadata', 1), 'with_metadata') for x in calls)
        ctx.check(ok, 'CompactCacheBase.%s:hands-on-with-metadata' % m, 'the request for metadata reaches the bundle (%d calls)' % len(calls), fn,
                  fail='CompactCacheBase.%s does not hand with_metadata on: the bundles never record the size' % m)


@rule('C20.n', floor=3)
def c20n(ctx):
    """the validators of a response belong to the image of that response: a stale tile is loaded with its metadata (time stamp and size
    of the old file) before it is created again, and tile_buffer keeps a time stamp that is already set.  Where a creator attaches
    the new image to such a tile, the old metadata is dropped (the store records the new ones); where the manager copies a created
    tile into the collection it returns, time stamp and size travel with the image (the CacheInfo of the created tile, not only its
    truth value).  Otherwise the request that refreshes a tile answers with the new image under the old Last-Modified, and
    If-Modified-Since of the old copy gets 304"""
    T = 'mapproxy/cache/tile.py'
    fn = ctx.fn(T + ':TileCreator._create_single_tile')
    g = fn.cfg
    srcs = g.find_stmts(lambda s: isinstance(s, ast.Assign) and unparse(s.targets[0]) == 'tile.source' and not is_call(s.value, 'load'))
    stores = [n for n, x in g.find(lambda x: is_call(x, 'self.cache.store_tile', 'self.cache.store_tiles'))]
    ok = bool(srcs) and bool(stores)
    for what in ('timestamp', 'size'):
        resets = g.find_stmts(lambda s, what=what: isinstance(s, ast.Assign) and unparse(s.targets[0]) == 'tile.' + what and const_value(s.value, 1) is None)
        # between the attachment of the new image and the store there is no way around the reset
        good = bool(resets) and all(not g.reaches_avoiding(s_, st, avoid=set(resets)) for s_ in srcs for st in stores)
        ctx.check(ok and good, 'TileCreator._create_single_tile:stale-%s-dropped' % what,
                  'tile.%s of the loaded (stale) tile is reset where the new image is attached, before the store' % what, fn,
                  fail='the new image is stored on a tile object that still carries the %s of the stale tile: the refreshing response has the '
                       'validators of the old tile' % what)
    lt = ctx.fn(T + ':TileManager._load_tile_coords')
    ldefs = Defs(lt.node)
    n = 0
    for lp in [l for l in lt.walk() if isinstance(l, ast.For) and isinstance(l.target, ast.Name)]:
        if not any(contains(e, lambda x: is_call(x, 'create_tiles')) for e in expand(lp.iter, ldefs)):
            continue
        tv = lp.target.id
        for st in [x for x in ast.walk(lp) if isinstance(x, ast.Assign) and isinstance(x.targets[0], ast.Attribute) and x.targets[0].attr == 'source'
                   and unparse(x.value) == tv + '.source']:
            n += 1
            dst = unparse(st.targets[0].value)
            whole = [x for x in ast.walk(lp) if isinstance(x, ast.Assign) and unparse(x.targets[0]) == dst + '.cacheable' and unparse(x.value) == tv + '.cacheable']
            parts = {w for w in ('timestamp', 'size') if any(isinstance(x, ast.Assign) and unparse(x.targets[0]) == '%s.%s' % (dst, w) and
                                                             unparse(x.value) == '%s.%s' % (tv, w) for x in ast.walk(lp))}
            ctx.check(bool(whole) or parts == {'timestamp', 'size'}, 'TileManager._load_tile_coords:metadata-copied-with-source',
                      'time stamp and size of a created tile are copied together with its image (as CacheInfo or field by field)', lt, st,
                      fail='only the image (and the truth value of the cacheable mark) of a created tile is copied: the returned tile keeps the '
                           'time stamp and size it was loaded with')
    if not n:
        ctx.bad('TileManager._load_tile_coords:metadata-copied-with-source', 'the copy of created tiles into the returned collection was not found', lt)
    cs = ctx.fn(T + ':Tile._cacheable_set')
    ok = all(any(isinstance(s, ast.Assign) and unparse(s.targets[0]) == 'self.' + w and unparse(s.value) == 'cacheable.' + w for s in cs.walk()) for w in ('timestamp', 'size'))
    ctx.check(ok, 'Tile.cacheable:carries-metadata', 'assigning a CacheInfo to Tile.cacheable sets time stamp and size as well', cs)


@rule('C20.o', floor=2)
def c20o(ctx):
    """304 only for a validator that matches: the date of If-Modified-Since is compared as the date the client sent.  parse_httpdate
    may expand a two digit year (a value below 100); it does not move a four digit year -- adding 2000 to every year below 1970 turned
    `01 Jan 1960` into the year 3960, later than every tile, and such a request was answered 304"""
    fn = ctx.fn('mapproxy/util/times.py:parse_httpdate')
    g = fn.cfg
    # statements that re-bind the parsed date with something added to its year
    moved = [n for n in g.find_stmts(lambda s: (isinstance(s, ast.Assign) and contains(s.value, lambda x: isinstance(x, ast.BinOp) and isinstance(x.op, ast.Add) and
                                                                                       any(isinstance(const_value(o), int) and const_value(o) >= 100 for o in (x.left, x.right)))) or
                                     (isinstance(s, ast.AugAssign) and isinstance(s.op, ast.Add) and isinstance(const_value(s.value), int) and const_value(s.value) >= 100))]
    ok = all(g.guarded(n, lambda at: at.op == '<' and isinstance(const_value(at.right), int) and const_value(at.right) <= 100 and
                       contains(fn.canon.expr(at.left), lambda y: isinstance(y, ast.Subscript) and const_value(y.slice) == 0), True) for n in moved)
    ctx.check(ok, 'parse_httpdate:only-two-digit-years-expanded', 'a century is only added to years below 100 (%d site(s))' % len(moved), fn,
              fail='parse_httpdate moves four digit years: an If-Modified-Since date before 1970 becomes a date in the far future and is answered '
                   '304 for every tile')
    rets = [r for r in returns_of(fn.node) if r.value is not None and not (isinstance(r.value, ast.Constant) and r.value.value is None)]
    ok = bool(rets) and all(is_call(r.value, 'calendar.timegm', 'timegm') for r in rets)
    ctx.check(ok, 'parse_httpdate:utc', 'the date is converted as UTC (timegm)', fn)


@rule('C20.p', floor=2)
def c20p(ctx):
    """a tile that must not be cached is sent with no-store directives -- and with nothing else: in the WMS-C path (tiled=true) of
    WMSServer.map the validators and `public, max-age` of the tile are set only for a result that is cacheable; for the fill image of an
    on_error rule the no-store branch is the only one that runs (both ran: the response carried two Cache-Control values and an ETag that
    was answered 304)"""
    fn = ctx.fn('mapproxy/service/wms.py:WMSServer.map')
    g = fn.cfg
    pub = [(n, x) for n, x in g.find(lambda x: is_call(x, 'resp.cache_headers')) if not (keyword(x, 'no_cache') is not None and const_value(keyword(x, 'no_cache')) is True)]
    nos = [(n, x) for n, x in g.find(lambda x: is_call(x, 'resp.cache_headers')) if keyword(x, 'no_cache') is not None and const_value(keyword(x, 'no_cache')) is True]
    cond = g.find(lambda x: is_call(x, 'resp.make_conditional'))
    if not pub or not nos:
        raise Undecided('WMSServer.map: cache header calls not found')

    def cacheable(at):
        return at.op is None and unparse(at.expr).endswith('result.cacheable')
    ok = all(g.guarded(n, cacheable, True) for n, x in pub + cond)
    ctx.check(ok, 'WMSServer.map:validators-only-for-cacheable-result', 'public cache headers / conditional answers only under `result.cacheable`', fn,
              fail='WMSServer.map sets the public cache headers and validators of a WMS-C tile without asking whether the result may be cached: the '
                   'uncached fill image is sent with max-age and an ETag next to no-store')
    ok = all(g.guarded(n, cacheable, False) for n, x in nos)
    ctx.check(ok, 'WMSServer.map:no-store-for-uncacheable-result', 'no-store is set exactly under `not result.cacheable`', fn)


@rule('C20.q', floor=2)
def c20q(ctx):
    """the "do not cache" mark of a fill image survives: the image an `on_error` rule answers with carries cacheable=False and is
    returned by WMSSource.get_map as the error handler made it.  The post-processing of a *fetched* map (transparent colour, opacity)
    builds a new image object, which is cacheable by default -- it is applied to the result of self._get_map(query) only, never to
    the answer of the error handler (that fill image would be stored and sent with public cache headers)"""
    fn = ctx.fn('mapproxy/source/wms.py:WMSSource.get_map')
    g = fn.cfg
    mt = g.find(lambda x: is_call(x, 'make_transparent') and x.args)
    hd = g.find(lambda x: is_call(x, 'self.error_handler.handle'))
    if not mt or not hd:
        raise Undecided('WMSSource.get_map: make_transparent / error_handler.handle not found')
    ok = all(fn.ctext(x.args[0], at=n) == 'self._get_map(query)' for n, x in mt)
    ctx.check(ok, 'WMSSource.get_map:post-processing-of-fetched-maps-only', 'make_transparent is applied to the result of self._get_map(query)', fn,
              fail='WMSSource.get_map post-processes an image that can be the fill image of the error handler: the new image object is '
                   'cacheable again and the fill image is stored and served with public cache headers')
    # the handler's answer is returned as it is
    rets = [n for n in g.find_stmts(lambda s: isinstance(s, ast.Return) and s.value is not None)]
    from_handler = [n for n in rets if is_call(fn.canon.expr(g.stmt[n].value), 'self.error_handler.handle') or
                    any(g.dominates(h, n) and h != n for h, _ in hd)]
    ctx.check(bool(from_handler), 'WMSSource.get_map:handler-answer-returned', 'the answer of the error handler is returned from its own branch', fn)


@rule('C20.r', floor=2)
def c20r(ctx):
    """the same tile gets the same validators, however it came to be loaded: every load of cached tiles in
    TileManager._load_tile_coords -- the batch load and the load of tiles another request stored in the meantime -- hands the
    caller's `with_metadata` on to the cache (a tile loaded without it is served with the constant ETag of "no time stamp, no size"
    and no Last-Modified, and that constant ETag is answered 304 after the tile was rewritten)"""
    fn = ctx.fn('mapproxy/cache/tile.py:TileManager._load_tile_coords')
    loads = [x for x in fn.walk() if is_call(x, 'self.cache.load_tiles')]
    if len(loads) < 2:
        raise Undecided('_load_tile_coords: %d cache.load_tiles calls found' % len(loads))
    for k, x in enumerate(sorted(loads, key=lambda y: y.lineno)):
        a = keyword(x, 'with_metadata', 1)
        ok = a is not None and unparse(fn.canon.expr(a)) == 'with_metadata'
        ctx.check(ok, 'TileManager._load_tile_coords:load_tiles#%d:metadata-flag-handed-on' % (k + 1), 'cache.load_tiles(.., with_metadata, ..)', fn, x,
                  fail='a load of cached tiles in _load_tile_coords does not pass with_metadata on (%s): those tiles are served without '
                       'their validators' % (unparse(a) if a is not None else 'missing'))


@rule('C20.s', floor=1)
def c20s(ctx):
    """304 only for a validator that matches the tile as it is stored now: If-Modified-Since is compared with the time stamp of the
    tile itself, fractions included -- Response keeps `timestamp(date)` as it is.  Cut to whole seconds, a tile stored at T+0.25 s and
    rewritten at T+0.75 s answers 304 to the Last-Modified of its first version"""
    fn = ctx.fn('mapproxy/response.py:Response._last_modified_set')
    sets = [s for s in fn.walk() if isinstance(s, ast.Assign) and unparse(s.targets[0]) == 'self._timestamp']
    if not sets:
        raise Undecided('Response._last_modified_set: self._timestamp is not set')
    ok = all(not contains(fn.canon.expr(s.value), lambda x: is_call(x, 'int', 'round', 'math.floor', 'floor', 'math.trunc', 'trunc')) and
             is_call(fn.canon.expr(s.value), 'timestamp') for s in sets)
    ctx.check(ok, 'Response._last_modified_set:time-stamp-kept-exact', 'self._timestamp = timestamp(date), not cut to whole seconds', fn,
              fail='Response keeps the time stamp of the tile cut to whole seconds: a rewrite within the same second is answered 304 for the '
                   'validator of the version before it')
