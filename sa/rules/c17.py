"""C17 -- upstream servers are only asked for what they are configured to support.
Decided: which gate a request passed and where its SRS/format came from is structure: the
resolution-range and coverage gates dominate every call that reaches the HTTP client, tile
sources additionally check tile size, SRS and single-tile alignment and address a tile of
their own grid (C17.a); the SRS of every upstream map request is an element of
supported_srs (equality loop, best_srs, or inherited by the sub-query) and preferred_src only
returns available entries (C17.b); the format passed on went through the supported_formats
negotiation (C17.c); the unsplit request only runs when the extent contains the query,
otherwise the sub-query limited to the extent, which raises for an empty size (C17.d); only
configured dimensions are forwarded (C17.e).
Added in round 4: the SRS chosen among the supported ones is the element of the configured list
(C17.k); every source class keeps the gate settings its constructor receives (C17.l).
Added in round 5: members of composed coverages are transformed before their geometry is used
(C17.m); shared extents and coverages keep no request state (C17.n).
Added in round 6: GetFeatureInfo is sent with the configured SRS code (C17.o; known finding K2)."""
import ast

from ..engine import rule
from ..model import Undecided
from ..cfg import same, same_args, dotted, call_name, is_call, simple_name, unparse, const_value, contains, enclosing, implied
from ..flow import Defs, depends
from ..decide import table, ret_kind
from ..util import resolve1, keyword, returns_of, calls_in, inside, order_key

NOT_DECIDED = 'that a transformed bbox lies inside the coverage numerically; contents of the configured lists'

SW = 'mapproxy/source/wms.py'
ST = 'mapproxy/source/tile.py'
CW = 'mapproxy/client/wms.py'


def _raises_blank(g, n):
    st = g.stmt[n]
    return isinstance(st, ast.Raise) and st.exc is not None and 'BlankImage' in unparse(st.exc)


def _gate(ctx, fn, fetch_pred, gates, label):
    """abstract run of the function under every truth assignment of its tests (flags and inlined predicates are followed):
    whenever a gate's "outside" condition holds (attribute set, containment test negative) no upstream call is executed"""
    # the range test may be delegated to the inherited MapLayer.check_res_range
    fn = ctx.repo.with_inlined(fn, ['check_res_range'])
    g = fn.cfg
    fetch = g.find(fetch_pred)
    if not fetch:
        ctx.bad('%s:fetch' % label, 'no upstream call found', fn)
        return

    def ev(st):
        if isinstance(st, (ast.Assign, ast.Return, ast.Expr, ast.AugAssign)) and contains(st, lambda x: isinstance(x, ast.Call) and fetch_pred(x)):
            return 'fetch'
        return None
    tab = ctx.rows(table(fn.node.body, ret_kind, event_of=ev))
    for name, atom_pred, inside_pol in gates:
        tests = [a for a in tab.atoms if atom_pred(tab.atom_objs[a])]
        if len(tests) != 1:
            ctx.bad('%s:%s-gate' % (label, name), '%s: no %s test found' % (label, name), fn)
            continue
        recv = unparse(tab.atom_objs[tests[0]].expr.func.value) if isinstance(tab.atom_objs[tests[0]].expr, ast.Call) and \
            isinstance(tab.atom_objs[tests[0]].expr.func, ast.Attribute) else None
        sets = [a for a in tab.atoms if tab.atom_objs[a].op is None and unparse(tab.atom_objs[a].expr) == recv]
        bad = []
        seen_fetch = False
        for asg, out, events in tab.assignments():
            seen_fetch = seen_fetch or 'fetch' in events
            if sets and not asg[sets[0]]:
                continue            # range / coverage not configured
            if asg[tests[0]] is not inside_pol and 'fetch' in events:
                bad.append(asg)
        ctx.check(not bad and seen_fetch, '%s:%s-gate' % (label, name), 'no upstream request when the %s test fails (%d rows)' % (name, len(tab.rows)), fn,
                  fail='%s: the upstream call is executed although the %s test failed' % (label, name))


@rule('C17.a', floor=6)
def c17a(ctx):
    res_gate = ('resolution-range', lambda at: at.mentions(lambda x: is_call(x, 'self.res_range.contains')), True)
    cov_gate = ('coverage', lambda at: at.mentions(lambda x: is_call(x, 'self.coverage.intersects')), True)
    fn = ctx.fn(SW + ':WMSSource.get_map')
    _gate(ctx, fn, lambda x: is_call(x, 'self._get_map'), [res_gate, cov_gate], 'WMSSource.get_map')
    fn = ctx.fn(ST + ':TiledSource.get_map')
    _gate(ctx, fn, lambda x: is_call(x, 'self.client.get_tile'), [res_gate, cov_gate], 'TiledSource.get_map')
    g = fn.cfg
    fetch = g.find(lambda x: is_call(x, 'self.client.get_tile'))
    # (the tile-size / SRS / single-tile raises are configuration consistency checks: without them the coordinate still
    #  comes from the source's own grid, so they are not necessary conditions of the statement and are not armed)
    defs = Defs(fn.node)
    for n, x in fetch:
        a = x.args[0]
        ok = False
        if isinstance(a, ast.Name):
            d1 = defs.of(a.id)
            if len(d1) == 1 and is_call(d1[0][0], 'next') and isinstance(d1[0][0].args[0], ast.Name):
                d2 = defs.of(d1[0][0].args[0].id)
                ok = len(d2) == 1 and is_call(d2[0][0], 'self.grid.get_affected_tiles') and d2[0][1] == 2
        ctx.check(ok, 'TiledSource.get_map:own-grid-tile', 'the requested coordinate comes from the source grid\'s own get_affected_tiles', fn, x,
                  fail='the tile coordinate sent upstream is not computed from the source\'s own grid')
    fn = ctx.fn(SW + ':WMSInfoSource.get_info')
    g = fn.cfg
    fetch = g.find(lambda x: is_call(x, 'self.client.get_info'))
    ok = bool(fetch)
    for n, x in fetch:
        edges = [(s, d) for s, d, test, pol in g.branch_edges()
                 if any(at.mentions(lambda y: is_call(y, 'self.coverage.contains')) and p is False for at, p in implied(test, pol))]
        ok = ok and bool(edges) and all(n not in g.reachable(d) for s, d in edges)
    ctx.check(ok, 'WMSInfoSource.get_info:coverage-gate', 'no upstream feature-info request for a point outside the source coverage', fn)
    if ctx.thorough:
        for qn, fetchname in (('mapproxy/source/arcgis.py:ArcGISSource.get_map', None), ('mapproxy/source/mapnik.py:MapnikSource.get_map', None)):
            if qn in ctx.repo.funcs:
                f = ctx.fn(qn)
                gg = f.cfg
                rs = [r for r in gg.find_stmts(lambda s: isinstance(s, ast.Raise)) if _raises_blank(gg, r)]
                ctx.check(len(rs) >= 1, '%s:gates' % f.short, 'sibling source raises BlankImage on its gates', f)


@rule('C17.b', floor=6)
def c17b(ctx):
    fn = ctx.fn(SW + ':WMSSource._get_map')
    g = fn.cfg
    defs = Defs(fn.node)
    ret = g.find(lambda x: is_call(x, 'self.client.retrieve'))
    if not ret:
        ctx.bad('WMSSource._get_map:retrieve', 'no client.retrieve call', fn)
    # second spelling of the same guarantee: membership test, then the supported entry through best_srs -- sound because
    # preferred_src answers with the element of the list that equals the target first (C17.k, equal-target-first)
    member = lambda at: at.op == 'in' and unparse(at.left) == 'query.srs' and unparse(at.right) == 'self.supported_srs'
    via_best = [s_ for s_ in fn.walk() if isinstance(s_, ast.Assign) and unparse(s_.targets[0]) == 'query.srs' and
                is_call(s_.value, 'self.supported_srs.best_srs') and s_.value.args and unparse(s_.value.args[0]) == 'query.srs']
    tr_ = g.find(lambda x: is_call(x, 'self._get_transformed'))
    if via_best and tr_ and not [s_ for s_ in fn.walk() if isinstance(s_, ast.For) and same(s_.iter, 'self.supported_srs')]:
        ps = ctx.fn('mapproxy/srs.py:PreferredSrcSRS.preferred_src')
        pg = ps.cfg
        prets = sorted(pg.find_stmts(lambda s_: isinstance(s_, ast.Return)), key=lambda n_: order_key(pg.stmt[n_]))
        first_ok = False
        if prets:
            r0 = pg.stmt[prets[0]]
            lp0 = enclosing(r0, ast.For)
            first_ok = lp0 is not None and same(lp0.iter, ps.params[2]) and unparse(r0.value) == unparse(lp0.target) and \
                pg.guarded(prets[0], lambda at: at.op == '==' and {unparse(at.left), unparse(at.right)} == {unparse(lp0.target), ps.params[1]}, True)
        unset = lambda at: at.op is None and at.text == 'self.supported_srs'
        via_nodes = {g.node_of[id(s_)] for s_ in via_best}
        okb = first_ok and all(g.guarded(n, member, False) for n, x in tr_) and \
            all(g.guarded_any(n, [(member, True), (unset, False)]) for n, x in ret) and \
            all(d in via_nodes or (d != n and not g.reaches_avoiding(d, n, avoid=via_nodes)) for s_, d in g.guard_edges(member, True) for n, x in ret)
        for c_, m_ in (('srs-equality-loop', 'the supported entry equal to the query SRS is found by best_srs (preferred_src answers with the equal element first)'),
                       ('unsupported-srs-transformed', 'a query SRS that is not in supported_srs goes through _get_transformed'),
                       ('retrieve-only-supported', 'the direct upstream request is only reached for a member of supported_srs'),
                       ('srs-code-from-supported', 'query.srs is replaced by the entry of the supported list')):
            ctx.check(okb, 'WMSSource._get_map:' + c_, m_, fn, fail='the membership / best_srs form does not guarantee a supported SRS code')
        loop = None
    else:
        loop = [s for s in fn.walk() if isinstance(s, ast.For) and same(s.iter, 'self.supported_srs')]
    if loop is not None:
        ok = bool(loop)
        if ok:
            lp = loop[0]
            eq = [s for s in lp.body if isinstance(s, ast.If) and isinstance(s.test, ast.Compare) and 'query.srs' in unparse(s.test) and unparse(lp.target) in unparse(s.test)]
            ok = bool(eq) and any(isinstance(b, ast.Assign) and unparse(b.targets[0]) == 'request_srs' and unparse(b.value) == unparse(lp.target) for b in eq[0].body)
        ctx.check(ok, 'WMSSource._get_map:srs-equality-loop', 'request_srs is the element of supported_srs that equals the query SRS', fn,
                  fail='request_srs is not taken from supported_srs by the equality loop')
        tr = g.find(lambda x: is_call(x, 'self._get_transformed'))
        ok = bool(tr) and all(g.guarded(n, lambda at: at.op == '==' and 'request_srs' in at.text and 'None' in at.text, True) for n, x in tr)
        ctx.check(ok, 'WMSSource._get_map:unsupported-srs-transformed', 'a query SRS that is not supported goes through _get_transformed', fn)
        for n, x in ret:
            # reachable only if supported_srs empty, or request_srs is not None
            edges = [(s, d) for s, d, test, pol in g.branch_edges()
                     if any(at.op == '==' and 'request_srs' in at.text and 'None' in at.text and p is True for at, p in implied(test, pol))]
            ok = bool(edges) and all(n not in g.reachable(d) for s, d in edges)
            ctx.check(ok, 'WMSSource._get_map:retrieve-only-supported', 'the direct upstream request is not reachable with an unsupported SRS', fn, x,
                      fail='the upstream request can be sent in an SRS that is not in supported_srs')
        sets = [s for s in fn.walk() if isinstance(s, ast.Assign) and unparse(s.targets[0]) == 'query.srs']
        ok = all(same(s.value, 'request_srs') for s in sets)
        ctx.check(ok, 'WMSSource._get_map:srs-code-from-supported', 'query.srs is only replaced by the supported entry', fn)
    gt = ctx.fn(SW + ':WMSSource._get_transformed')
    # closed forms of what is sent upstream: MapQuery(<query bbox transformed into S>, <size>, S, ...) with S = supported_srs.best_srs(query.srs)
    SRS = 'self.supported_srs.best_srs(query.srs)'
    sends = [x for x in gt.walk() if is_call(x, 'self.client.retrieve', 'self._get_sub_query')]
    forms = [gt.canon.expr(x.args[0]) for x in sends if x.args]
    okq = bool(forms) and all(is_call(f, 'MapQuery') and len(f.args) >= 3 for f in forms)
    ctx.check(okq, 'WMSSource._get_transformed:sends-src-query', 'what is sent upstream is a newly built MapQuery', gt)
    ok = okq and all(unparse(f.args[2]).replace(' ', '') == SRS for f in forms)
    ctx.check(ok, 'WMSSource._get_transformed:best-srs', 'the source SRS is supported_srs.best_srs(...)', gt)
    ok = okq and all(unparse(f.args[2]).replace(' ', '') == SRS and is_call(f.args[0], 'transform_bbox_to') for f in forms)
    ctx.check(ok, 'WMSSource._get_transformed:query-in-src-srs', 'the upstream query is built with the transformed bbox in the source SRS', gt)
    ok = okq and all(same(f.args[0], 'query.srs.transform_bbox_to(%s,query.bbox)' % SRS) for f in forms)
    ctx.check(ok, 'WMSSource._get_transformed:bbox-transformed', 'the upstream bbox is the query bbox transformed from the query SRS into the source SRS', gt)
    gs = ctx.fn(SW + ':WMSSource._get_sub_query')
    sends = [x for x in gs.walk() if is_call(x, 'self.client.retrieve')]
    forms = [gs.canon.expr(x.args[0]) for x in sends if x.args]
    ok = bool(forms) and all(is_call(f, 'MapQuery') and len(f.args) >= 3 and same(f.args[2], 'query.srs') for f in forms)
    ctx.check(ok, 'WMSSource._get_sub_query:inherits-srs', 'the sub-query inherits the (already negotiated) SRS of its parent', gs)
    ps = ctx.fn('mapproxy/srs.py:PreferredSrcSRS.preferred_src')
    g = ps.cfg
    okall = True
    for r in g.find_stmts(lambda s: isinstance(s, ast.Return)):
        v = g.stmt[r].value
        ok = False
        if isinstance(v, ast.Subscript) and same(v.value, 'available_src'):
            ok = True
        elif isinstance(v, ast.Name):
            lp = enclosing(g.stmt[r], ast.For)
            if lp is not None and unparse(lp.target) == v.id and same(lp.iter, 'available_src'):
                ok = True
            elif g.guarded(r, lambda at: at.op == 'in' and unparse(at.left) == v.id and same(at.right, 'available_src'), True):
                ok = True
            elif _element_of(ps, g.stmt[r], v, 'available_src'):
                ok = True
        okall = okall and ok
    ctx.check(okall, 'PreferredSrcSRS.preferred_src:returns-available', 'every returned SRS is an element of available_src', ps,
              fail='preferred_src can return an SRS that is not among the available (supported) ones')
    bs = ctx.fn('mapproxy/srs.py:SupportedSRS.best_srs')
    ok = any(is_call(x, 'self.preferred_srs.preferred_src') and same(x.args[1], 'self.supported_srs') for x in bs.walk())
    ctx.check(ok, 'SupportedSRS.best_srs:from-supported', 'best_srs chooses among self.supported_srs', bs)


@rule('C17.c', floor=3)
def c17c(ctx):
    fn = ctx.fn(SW + ':WMSSource._get_map')
    g = fn.cfg
    defs = Defs(fn.node)
    neg = [s for s in fn.walk() if isinstance(s, ast.If) and 'self.supported_formats' in unparse(s.test) and 'not in' in unparse(s.test)]
    ok = bool(neg) and any(isinstance(b, ast.Assign) and unparse(b.targets[0]) == 'format' and same(b.value, 'self.supported_formats[0]') for b in neg[0].body)
    ctx.check(ok, 'WMSSource._get_map:format-negotiation', 'a format that is not supported is replaced by supported_formats[0]', fn,
              fail='the requested format is not negotiated against supported_formats')
    sinks = g.find(lambda x: is_call(x, 'self.client.retrieve', 'self._get_transformed', 'self._get_sub_query'))
    negn = g.node_of.get(id(neg[0])) if neg else None
    ok = bool(sinks) and negn is not None and all(same(x.args[1], 'format') and g.dominates(negn, n) for n, x in sinks)
    ctx.check(ok, 'WMSSource._get_map:negotiated-format-passed', 'the negotiated `format` variable is what is passed on, after the negotiation', fn,
              fail='the format passed upstream is not the negotiated one (or is passed before the negotiation)')
    for m in ('_get_sub_query', '_get_transformed'):
        f = ctx.fn('%s:WMSSource.%s' % (SW, m))
        rs = [x for x in f.walk() if is_call(x, 'self.client.retrieve', 'self._get_sub_query')]
        ok = bool(rs) and all(same(x.args[1], 'format') for x in rs) and 'format' in f.params
        ctx.check(ok, 'WMSSource.%s:format-threaded' % m, 'the format parameter is threaded through unchanged', f)


@rule('C17.d', floor=5)
def c17d(ctx):
    fn = ctx.fn(SW + ':WMSSource._get_map')
    g = fn.cfg
    ret = g.find(lambda x: is_call(x, 'self.client.retrieve'))
    ext = lambda at: at.mentions(lambda x: is_call(x, 'self.extent.contains') and x.args and is_call(x.args[0], 'MapExtent'))
    # every path to the unsplit request either found the query inside the extent or found no extent configured
    noext = lambda at: at.op is None and same(at.expr, 'self.extent')
    ok = bool(ret) and all(g.guarded_any(n, [(ext, True), (noext, False)]) for n, x in ret)
    ctx.check(ok, 'WMSSource._get_map:unsplit-only-inside-extent', 'the unsplit request is not sent when the source extent does not contain the query', fn,
              fail='the full query is sent upstream although it exceeds the source extent')
    sub = g.find(lambda x: is_call(x, 'self._get_sub_query'))
    ok = bool(sub) and all(g.guarded(n, ext, False) for n, x in sub)
    ctx.check(ok, 'WMSSource._get_map:sub-query-otherwise', 'otherwise the query is limited by _get_sub_query', fn)
    gs = ctx.fn(SW + ':WMSSource._get_sub_query')
    g = gs.cfg
    defs = Defs(gs.node)
    bp = [x for x in gs.walk() if is_call(x, 'bbox_position_in_image')]
    ok = len(bp) == 1 and same_args(bp[0].args, ['query.bbox', 'query.size', 'self.extent.bbox_for(query.srs)'])
    ctx.check(ok, 'WMSSource._get_sub_query:limited-to-extent', 'the sub-query box is bbox_position_in_image(query.bbox, query.size, extent in the query SRS)', gs,
              fail='the sub-query is not limited to the source extent in the query SRS')
    tgt = enclosing(bp[0], ast.Assign).targets[0] if bp and enclosing(bp[0], ast.Assign) is not None else None
    names = [unparse(e) for e in tgt.elts] if isinstance(tgt, ast.Tuple) and len(tgt.elts) == 3 else None
    sq = [x for x in gs.walk() if is_call(x, 'MapQuery')]
    ok = names is not None and len(sq) == 1 and len(sq[0].args) >= 2 and unparse(sq[0].args[0]) == names[2] and unparse(sq[0].args[1]) == names[0]
    ctx.check(ok, 'WMSSource._get_sub_query:query-uses-sub-box', 'the upstream query uses the limited bbox and size', gs)
    fetch = g.find(lambda x: is_call(x, 'self.client.retrieve'))
    raises = [r for r in g.find_stmts(lambda s: isinstance(s, ast.Raise)) if _raises_blank(g, r)]
    ok = bool(raises) and names is not None
    if ok:
        sz = names[0]
        z0 = lambda k: (lambda at: at.op == '==' and unparse(at.left) in ('%s[%d]' % (sz, k), '0') and unparse(at.right) in ('%s[%d]' % (sz, k), '0') and '%s[%d]' % (sz, k) in at.text)
        st = enclosing(g.stmt[raises[0]], ast.If)
        from ..decide import expr_table
        tab = ctx.rows(expr_table(st.test))
        at_node = g.node_of[id(st)]
        szc = gs.canon.text(ast.Name(id=sz, ctx=ast.Load()), at=at_node)

        def zero_of(a, k):
            # `<size>[k] == 0` with the size component in closed form (it may have been unpacked into width / height)
            at = tab.atom_objs[a]
            if at.op != '==':
                return False
            sides = [at.left, at.right]
            zero = [e for e in sides if const_value(e, 1) == 0]
            comp = [e for e in sides if e not in zero]
            return len(zero) == 1 and len(comp) == 1 and gs.canon.text(comp[0], at=at_node) in ('%s[%d]' % (szc, k), '%s[%d]' % (sz, k))
        a0 = [a for a in tab.atoms if zero_of(a, 0)]
        a1 = [a for a in tab.atoms if zero_of(a, 1)]
        ok = len(a0) == 1 and len(a1) == 1 and all(v == (asg[a0[0]] or asg[a1[0]]) for asg, v, _ in tab.assignments())
        ok = ok and all(g.dominates(g.node_of[id(st)], n) for n, x in fetch)
    ctx.check(ok, 'WMSSource._get_sub_query:empty-size-raises', 'a sub-query with zero width or height raises BlankImage before the upstream call', gs,
              fail='an empty sub-query (size 0 in one direction) is not refused before the upstream request')


@rule('C17.e', floor=4)
def c17e(ctx):
    fn = ctx.fn(CW + ':WMSClient._query_req')
    ups = [x for x in fn.walk() if is_call(x, 'req.params.update')]
    defs = Defs(fn.node)
    arg = ups[0].args[0] if len(ups) == 1 else None
    if isinstance(arg, ast.Name) and len(defs.of(arg.id)) == 1 and defs.of(arg.id)[0][1] is None:
        arg = defs.of(arg.id)[0][0]
    ok = len(ups) == 1 and is_call(arg, 'query.dimensions_for_params') and same(arg.args[0], 'self.fwd_req_params')
    other = [x for x in fn.walk() if isinstance(x, ast.Attribute) and x.attr == 'dimensions' and not is_call(getattr(x, '_parent', None), 'query.dimensions_for_params')
             and not (isinstance(getattr(x, '_parent', None), ast.Attribute))]
    ctx.check(ok and not other, 'WMSClient._query_req:only-filtered-dimensions',
              'the only flow from query.dimensions into the upstream parameters is dimensions_for_params(self.fwd_req_params)', fn,
              fail='query.dimensions reaches the upstream request parameters without the forward_req_params filter')
    dp = ctx.fn('mapproxy/layer.py:MapQuery.dimensions_for_params')
    # shape-agnostic: some iteration over self.dimensions.items() with target (K, V) keeps K -> V exactly under `K.lower() in P`,
    # where P is the lower-cased parameter list
    ddefs = Defs(dp.node)
    par = dp.params[1] if len(dp.params) > 1 else 'params'

    def lowered(e):
        forms = [e] + ([v for v, sel in ddefs.of(e.id) if sel is None] if isinstance(e, ast.Name) else [])
        for f in forms:
            if is_call(f, 'set', 'list', 'tuple', 'frozenset') and f.args:
                f = f.args[0]
            if isinstance(f, (ast.ListComp, ast.SetComp, ast.GeneratorExp)) and len(f.generators) == 1 and not f.generators[0].ifs and \
                    same(f.elt, '%s.lower()' % unparse(f.generators[0].target)):
                src = f.generators[0].iter
                if unparse(src) == par or (isinstance(src, ast.Name) and src.id != getattr(e, 'id', None) and lowered(src)):
                    return True
        return False

    def keeps(test, k):
        return isinstance(test, ast.Compare) and len(test.ops) == 1 and isinstance(test.ops[0], ast.In) and \
            same(test.left, '%s.lower()' % k) and lowered(test.comparators[0])
    ok = False
    for x in ast.walk(dp.node):
        if isinstance(x, (ast.GeneratorExp, ast.DictComp, ast.ListComp)) and x.generators and same(x.generators[0].iter, 'self.dimensions.items()'):
            gen = x.generators[0]
            if isinstance(gen.target, ast.Tuple) and len(gen.target.elts) == 2:
                k, v = (unparse(e) for e in gen.target.elts)
                elt_ok = (isinstance(x, ast.DictComp) and unparse(x.key) == k and unparse(x.value) == v) or \
                    (not isinstance(x, ast.DictComp) and same(x.elt, '(%s,%s)' % (k, v)))
                ok = ok or (len(gen.ifs) == 1 and keeps(gen.ifs[0], k) and elt_ok)
        if isinstance(x, ast.For) and same(x.iter, 'self.dimensions.items()') and isinstance(x.target, ast.Tuple) and len(x.target.elts) == 2:
            k, v = (unparse(e) for e in x.target.elts)
            if len(x.body) == 1 and isinstance(x.body[0], ast.If) and not x.body[0].orelse and keeps(x.body[0].test, k) and len(x.body[0].body) == 1:
                st = x.body[0].body[0]
                ok = ok or (isinstance(st, ast.Assign) and isinstance(st.targets[0], ast.Subscript) and unparse(st.targets[0].slice) == k and
                            unparse(st.value) == v and
                            any(isinstance(r.value, ast.Name) and r.value.id == unparse(st.targets[0].value) for r in returns_of(dp.node)))
    ctx.check(ok, 'MapQuery.dimensions_for_params:filter', 'a dimension is kept iff its lower-cased name is in the given parameter set', dp,
              fail='dimensions_for_params does not filter by the configured parameter names')
    up = ctx.fn('mapproxy/service/wms.py:WMSServer.update_query_with_fwd_params')
    g = up.cfg
    sets = g.find_stmts(lambda s: isinstance(s, ast.Assign) and isinstance(s.targets[0], ast.Subscript) and unparse(s.targets[0].value) == 'query.dimensions')
    ok = bool(sets)
    for n in sets:
        lp = enclosing(g.stmt[n], ast.For)
        it = lp.iter if lp is not None else None
        # `layer.fwd_req_params`, or getattr(layer, 'fwd_req_params', <nothing>) for layers that have none
        named = it is not None and (same(it, 'layer.fwd_req_params') or (
            is_call(it, 'getattr') and len(it.args) == 3 and const_value(it.args[1]) == 'fwd_req_params' and
            isinstance(it.args[2], (ast.Tuple, ast.List)) and not it.args[2].elts))
        ok = ok and named and unparse(g.stmt[n].targets[0].slice) == unparse(lp.target)
    ctx.check(ok, 'WMSServer.update_query_with_fwd_params:only-configured', 'only parameters named in a layer\'s fwd_req_params are copied into the query', up)
    cc = ctx.fn(CW + ':WMSClient.combined_client')
    ok = any(is_call(x, 'WMSClient') and unparse(keyword(x, 'fwd_req_params')) == 'self.fwd_req_params' for x in cc.walk())
    ctx.check(ok, 'WMSClient.combined_client:keeps-filter', 'a combined client keeps the forward filter', cc)


def _res_kind(e, defs, depth=4):
    """'x' | 'y' | 'min' | 'max' | 'both' | None: which axis resolution(s) an expression stands for"""
    from ..flow import scoped_defs
    if isinstance(e, ast.Name) and depth > 0:
        key, ds = scoped_defs(e, defs)
        kinds = {_res_kind(v, defs, depth - 1) for v, sel in ds if sel is None}
        kinds.discard(None)
        if len(kinds) == 1:
            return kinds.pop()
        if isinstance(e, ast.Name) and any(isinstance(sel, int) for v, sel in ds):
            return None
    if isinstance(e, ast.Call):
        n = simple_name(e)
        if n == 'get_resolution':
            return 'min'
        if n in ('min', 'max') and len(e.args) == 2:
            ks = {_res_kind(a, defs, depth - 1) for a in e.args}
            return n if ks == {'x', 'y'} else None
        if n in ('deg_to_m', 'float', 'abs') and e.args:
            return _res_kind(e.args[0], defs, depth - 1)
    if isinstance(e, ast.BinOp) and isinstance(e.op, ast.Div):
        den = unparse(e.right)
        if den.endswith('[0]'):
            return 'x'
        if den.endswith('[1]'):
            return 'y'
    if isinstance(e, ast.BinOp) and isinstance(e.op, (ast.Add, ast.Sub, ast.Mult)):
        for side in (e.left, e.right):
            k = _res_kind(side, defs, depth - 1)
            if k:
                return k
    return None


@rule('C17.f', floor=2)
def c17f(ctx):
    """ResolutionRange.contains excludes a request if EITHER axis resolution is outside the range: the coarse bound
    (min_res) is tested on both axes (or on their max), the fine bound (max_res) on both axes (or on their min)"""
    fn = ctx.fn('mapproxy/grid.py:ResolutionRange.contains')
    defs = Defs(fn.node)
    tab = ctx.rows(table(fn.node.body, ret_kind, bool_returns=True))
    # every comparison atom: which bound, which axis, and whether its truth means "resolution below the bound"
    info = {}
    for a in tab.atoms:
        at = tab.atom_objs[a]
        if at.op != '<':
            continue
        for res, bound, below in ((at.left, at.right, True), (at.right, at.left, False)):
            bt = fn.ctext(bound, at=fn.cfg.EXIT) if isinstance(bound, ast.Name) else unparse(bound)
            bt = unparse(resolve1(bound, defs)) if isinstance(bound, ast.Name) else bt
            which = 'min' if 'self.min_res' in bt else 'max' if 'self.max_res' in bt else None
            kind = _res_kind(_closed(fn, res), defs)
            if which and kind:
                info[a] = (which, kind, below)
    sets = {w: [a for a in tab.atoms if tab.atom_objs[a].op is None and same(tab.atom_objs[a].expr, 'self.%s_res' % w)] for w in ('min', 'max')}
    for which, label in (('min', 'coarse bound min_res'), ('max', 'fine bound max_res')):
        atoms = [a for a, i in info.items() if i[0] == which]
        kinds = {info[a][1] for a in atoms}
        # coarse bound: the request is beyond it when its resolution is NOT below it; fine bound: when it IS below it
        # (the coarse bound carries a 1e-6 tolerance: `bound < res` and `not res < bound` differ only on the bound itself, both are
        # accepted; the fine bound is inclusive and must be written as `res < bound`)
        strict = which == 'min' or all(info[a][2] for a in atoms)
        axes_ok = kinds == {'x', 'y'} or kinds == {'max' if which == 'min' else 'min'}
        bad = []
        if atoms and strict and axes_ok and len(sets[which]) == 1:
            for asg, out, _ in tab.assignments():
                if not asg[sets[which][0]]:
                    continue
                beyond = any(((not asg[a]) if info[a][2] else asg[a]) if which == 'min' else asg[a] for a in atoms)
                if beyond and out != 'return False':
                    bad.append(asg)
        ok = bool(atoms) and strict and axes_ok and len(sets[which]) == 1 and not bad
        ctx.check(ok, 'ResolutionRange.contains:%s-both-axes' % which,
                  'the %s excludes the request when either axis resolution is beyond it (%d rows)' % (label, len(tab.rows)), fn,
                  fail='the %s is tested against %s only%s: a request with non-square pixels that is out of range on one axis is still sent upstream' % (
                      label, sorted(kinds) or ['nothing'], '' if strict else ' (comparison on the wrong side of the bound)'))
    ctx.check(_tolerance_ok(fn, tab, info, defs), 'ResolutionRange.contains:min-tolerance',
              'the coarse bound is compared as min_res + 1e-6: a resolution that equals the bound up to float noise is treated alike '
              'however the request was cut (single tile / meta tile / buffered)', fn,
              fail='the coarse bound is compared without its float tolerance: the same tile is refused when requested alone and rendered when it '
                   'is part of a meta tile (resolutions recomputed from different bounding boxes differ in the last bits)')


def _tolerance_ok(fn, tab, info, defs):
    """the coarse bound is compared with a small positive tolerance added: self.min_res + <const>, 0 < const <= 1e-3"""
    ok = False
    for a, (which, kind, below) in info.items():
        if which != 'min':
            continue
        at = tab.atom_objs[a]
        bound = at.right if below else at.left
        form = resolve1(bound, defs)
        good = isinstance(form, ast.BinOp) and isinstance(form.op, ast.Add) and \
            any(same(s_, 'self.min_res') for s_ in (form.left, form.right)) and \
            any(isinstance(const_value(s_), float) and 0 < const_value(s_) <= 1e-3 for s_ in (form.left, form.right))
        if not good:
            return False
        ok = True
    return ok


def _closed(fn, e):
    """closed form of an atom operand (the atom object is detached from the tree: locals are looked up at the function exit)"""
    try:
        return fn.canon.expr(e, at=fn.cfg.EXIT)
    except Exception:       # noqa
        return e


@rule('C17.g', floor=3)
def c17g(ctx):
    """upstream requests are built on a copy of the shared request template"""
    n = 0
    for rel in ('mapproxy/client/wms.py', 'mapproxy/client/arcgis.py', 'mapproxy/client/tile.py', 'mapproxy/client/cgi.py'):
        if rel not in ctx.repo.modules:
            continue
        for f in sorted(ctx.repo.fns_in(rel + ':'), key=lambda f: f.qn):
            if f.name == '__init__':
                continue
            defs = Defs(f.node)
            # names aliasing self.request_template
            alias = {nm for nm, ds in defs.defs.items() for v, sel in ds if sel is None and unparse(v) in ('self.request_template',)}
            stores = [x for x in f.walk() if isinstance(x, (ast.Attribute, ast.Subscript)) and isinstance(x.ctx, ast.Store) and
                      (unparse(x).startswith('self.request_template.') or any(unparse(x).startswith(a + '.') or unparse(x).startswith(a + '[') for a in alias))]
            muts = [x for x in f.walk() if isinstance(x, ast.Call) and isinstance(x.func, ast.Attribute) and x.func.attr in ('update', 'set', 'pop', 'setdefault') and
                    (unparse(x.func.value).startswith('self.request_template') or any(unparse(x.func.value).startswith(a + '.') for a in alias))]
            copies = [x for x in f.walk() if is_call(x, 'self.request_template.copy')]
            if not (stores or muts or copies or alias):
                continue
            n += 1
            ctx.check(not stores and not muts, '%s:template-not-mutated' % f.short,
                      'the shared request template is never written to; parameters are set on a copy', f,
                      fail='%s writes request parameters into the shared self.request_template (no .copy()): concurrent requests overwrite '
                           'each other\'s bbox/size/srs before the URL is built' % f.short)
    if n < 3:
        raise Undecided('only %d request-template users found' % n)


GATES = ['coverage', 'res_range', 'supported_srs', 'supported_formats']


@rule('C17.h', floor=8)
def c17h(ctx):
    """a source that is merged with its neighbour into one upstream request keeps its gates: WMSSource._is_compatible refuses the
    merge when the two sources differ in coverage, resolution range, supported SRS or supported formats, and
    WMSSource.combined_layer hands each of them (and the forwarded-dimension list) on to the merged source -- otherwise a source
    that would not be contacted on its own is contacted as part of the merged request"""
    fn = ctx.fn(SW + ':WMSSource._is_compatible')
    tab = ctx.rows(table(fn.node.body, ret_kind, bool_returns=True))
    for attr in GATES:
        atoms = [a for a in tab.atoms if tab.atom_objs[a].op == '==' and
                 {unparse(tab.atom_objs[a].left), unparse(tab.atom_objs[a].right)} == {'self.' + attr, 'other.' + attr}]
        bad = []
        if len(atoms) == 1:
            bad = [asg for asg, out, _ in tab.assignments() if not asg[atoms[0]] and out == 'return True']
        ctx.check(len(atoms) == 1 and not bad, 'WMSSource._is_compatible:gate-%s' % attr,
                  'sources that differ in %s are not merged into one upstream request' % attr, fn,
                  fail='two WMS sources that differ in %s can be merged into one upstream request: the stricter one is contacted for requests '
                       'it is configured not to answer' % attr)
    cl = ctx.fn(SW + ':WMSSource.combined_layer')
    news = [x for x in cl.walk() if is_call(x, 'WMSSource')]
    if not news:
        raise Undecided('WMSSource.combined_layer: constructor call of the merged source not found')
    for x in news:
        for attr in GATES + ['fwd_req_params']:
            v = keyword(x, attr)
            ok = v is not None and cl.ctext(v) == 'self.' + attr
            ctx.check(ok, 'WMSSource.combined_layer:keeps-%s' % attr, 'the merged source is built with %s of the sources it replaces' % attr, cl, x,
                      fail='the merged source is built with %s=%s: the gate of the merged sources is lost (they are contacted outside of it)' % (
                          attr, unparse(v) if v is not None else '<default>'))


@rule('C17.i', floor=2)
def c17i(ctx):
    """the coverage a source is gated with is the configured one, also after it was transformed into another SRS: a re-projected polygon
    keeps its interior rings (holes stay holes).  A polygon rebuilt from the exterior ring alone is larger than the configured
    coverage: requests inside an exclusion zone reach the source"""
    fn = ctx.fn('mapproxy/util/geom.py:transform_polygon')
    if len(fn.params) < 2:
        raise Undecided('transform_polygon: unexpected signature')
    transf, poly = fn.params[:2]
    rets = [fn.canon.expr(r.value) for r in returns_of(fn.node) if r.value is not None]
    ok = bool(rets)
    for f in rets:
        good = isinstance(f, ast.Call) and simple_name(f) == 'Polygon' and len(f.args) >= 2
        if good:
            ext, ints = f.args[0], f.args[1]
            good = is_call(ext, transf) and '%s.exterior' % poly in unparse(ext) and \
                isinstance(ints, (ast.ListComp, ast.GeneratorExp)) and same(ints.generators[0].iter, '%s.interiors' % poly) and is_call(ints.elt, transf)
        ok = ok and good
    ctx.check(ok, 'transform_polygon:keeps-interior-rings', 'the transformed polygon is Polygon(transf(exterior), [transf(ring) for ring in interiors])', fn,
              fail='the transformed polygon is built without the interior rings: the holes of a coverage are filled when it is re-projected')
    tm = ctx.fn('mapproxy/util/geom.py:transform_multipolygon')
    ok = any(is_call(x, 'transform_polygon') for x in tm.walk())
    ctx.check(ok, 'transform_multipolygon:per-polygon', 'every part of a multi polygon goes through transform_polygon', tm)


@rule('C17.j', floor=1)
def c17j(ctx):
    """shared rule, re-evaluated for this property: sources are merged into one upstream request only when they have the same coverage
    object comparison `self.coverage != other.coverage` (C14.c: the whole geometry, not its bounding box)"""
    from ..engine import run_property
    sub = run_property(ctx.repo, 'C14', ctx.tier, only={'C14.c'})
    for er in sub.errors:
        raise Undecided('shared rule %s: %s' % er)
    for o in sub.obs:
        if 'coverage' not in o.construct:
            continue
        (ctx.ok if o.status == 'ok' else ctx.bad)('%s:%s' % (o.rule, o.construct), o.msg, o.where)
    ctx.stats['functions'] |= sub.stats['functions']


def _element_of(fn, ret_stmt, v, avail):
    """is the returned value v an element of the list `avail` (a parameter)?  available[i]; the variable of a loop / generator over it; a
    local that only ever holds such variables, `next(<generator over avail>, SENTINEL)` or the sentinel itself -- and is returned where it
    is known not to be the sentinel"""
    g = fn.cfg
    if isinstance(v, ast.Subscript) and unparse(v.value) == avail:
        return True
    if not isinstance(v, ast.Name):
        return False

    def loop_var(name, at_node):
        lp = enclosing(at_node, ast.For)
        while lp is not None and not (unparse(lp.target) == name and same(lp.iter, avail)):
            lp = enclosing(lp, ast.For)
        return lp is not None
    if loop_var(v.id, ret_stmt):
        return True
    defs = Defs(fn.node)
    ds = defs.of(v.id)
    if not ds:
        return False
    sentinels = set()
    for val, sel in ds:
        if sel == 'elem' and same(val, avail):
            continue
        if sel is not None:
            return False
        if isinstance(val, ast.Name):
            st = enclosing(val, ast.Assign)
            if st is not None and loop_var(val.id, st):
                continue
            if val.id.lstrip('_').isupper():
                sentinels.add(val.id)
                continue
            return False
        if isinstance(val, ast.Constant) and val.value is None:
            sentinels.add('None')
            continue
        if is_call(val, 'next') and val.args:
            gen = fn.canon.expr(val.args[0])
            if not (isinstance(gen, ast.GeneratorExp) and len(gen.generators) == 1 and same(gen.generators[0].iter, avail) and
                    isinstance(gen.elt, ast.Name) and unparse(gen.generators[0].target) == gen.elt.id):
                return False
            if len(val.args) > 1:
                d = val.args[1]
                if isinstance(d, ast.Name) and d.id.lstrip('_').isupper():
                    sentinels.add(d.id)
                elif isinstance(d, ast.Constant) and d.value is None:
                    sentinels.add('None')
                else:
                    return False
            continue
        return False
    if sentinels:
        n = g.node_for(ret_stmt)
        return all(g.guarded(n, lambda at, s_=s_: at.op in ('is', '==') and {unparse(at.left), unparse(at.right)} == {v.id, s_}, False) for s_ in sentinels)
    return True


@rule('C17.k', floor=2)
def c17k(ctx):
    """the SRS asked for upstream is one of the configured ones -- the object from the source's own list, with the code that is
    written there: SRS objects with different codes compare equal (EPSG:3857 / EPSG:900913), so the choice among the supported SRSs
    (PreferredSrcSRS.preferred_src) answers with the element of `available_src` that matched, never with the equal object it was
    compared with (the requested SRS, an entry of the global preference list)"""
    fn = ctx.fn('mapproxy/srs.py:PreferredSrcSRS.preferred_src')
    avail = fn.params[2]
    rets = returns_of(fn.node)
    ok = bool(rets)
    detail = ''
    for r in rets:
        v = r.value
        good = False
        if isinstance(v, ast.Subscript) and unparse(v.value) == avail:
            good = True                 # available_src[i]
        elif isinstance(v, ast.Name):
            # a loop variable over available_src, or a local that only holds such elements
            good = _element_of(fn, r, v, avail)
        if not good:
            ok = False
            detail = 'returns %s' % unparse(v)
    ctx.check(ok, 'PreferredSrcSRS.preferred_src:answers-from-the-supported-list', 'every answer is an element of available_src', fn,
              fail='preferred_src %s, an object that merely compares equal to a supported SRS: the upstream request carries an SRS code that is '
                   'not in supported_srs' % detail)
    bs = ctx.fn('mapproxy/srs.py:SupportedSRS.best_srs')
    ok = any(is_call(x, 'self.preferred_srs.preferred_src') and len(x.args) >= 2 and same(x.args[1], 'self.supported_srs') for x in bs.walk())
    ctx.check(ok, 'SupportedSRS.best_srs:chooses-among-supported', 'best_srs chooses among self.supported_srs', bs)


GATE_PARAMS = ('coverage', 'res_range', 'supported_srs', 'supported_formats')
SOURCE_CLASSES = ['mapproxy/source/wms.py:WMSSource', 'mapproxy/source/arcgis.py:ArcGISSource', 'mapproxy/source/tile.py:TiledSource',
                  'mapproxy/source/mapnik.py:MapnikSource']


@rule('C17.l', floor=10)
def c17l(ctx):
    """what a source is gated with is what it was configured with: every source class keeps the gate settings its constructor receives
    (coverage, resolution range, supported SRS / formats) -- it stores them on the instance or hands them to the constructor of its
    base class under the same name.  A setting that is accepted and then dropped (ArcGISSource(..., res_range=r) that does not pass r
    on) leaves the gate open: the source is contacted at every resolution"""
    for q in SOURCE_CLASSES:
        cls = ctx.repo.cls(q)
        init = cls.own_method('__init__')
        if init is None:
            raise Undecided('%s: no own constructor' % q)
        defs = Defs(init.node)
        for p in GATE_PARAMS:
            if p not in init.params:
                continue
            stored = [s for s in init.walk() if isinstance(s, ast.Assign) and unparse(s.targets[0]) == 'self.' + p and
                      depends(s.value, lambda y, p=p: isinstance(y, ast.Name) and y.id == p, defs)]
            handed = []
            for x in init.walk():
                if isinstance(x, ast.Call) and isinstance(x.func, ast.Attribute) and x.func.attr == '__init__':
                    base = ctx.repo.resolve_name(init.mod, x.func.value)
                    bk = ctx.repo.classes.get(base) if base else None
                    binit = bk.method('__init__') if bk is not None else None
                    if binit is None or p not in binit.params:
                        continue
                    v = keyword(x, p, binit.params.index(p))        # (explicit self is the first positional argument)
                    if v is not None and depends(v, lambda y, p=p: isinstance(y, ast.Name) and y.id == p, defs):
                        handed.append(x)
            ctx.check(bool(stored) or bool(handed), '%s.__init__:%s-kept' % (cls.name, p),
                      'the %s given to %s is %s' % (p, cls.name, 'stored on the instance' if stored else 'handed to the base constructor'), init,
                      fail='%s accepts `%s` but neither stores it nor hands it to its base class: the configured %s does not gate the source' % (cls.name, p, p))


@rule('C17.m', floor=6)
def c17m(ctx):
    """the coverage that decides what is asked upstream is the configured one, in one SRS: a union / difference / intersection of
    coverages is computed from the geometries of all members *in the SRS of the first member*.  Every member geometry -- the polygon of
    a polygon coverage and the rectangle of a bbox coverage alike -- is taken from `<member>.transform_to(srs)` (a bbox member left in
    its own SRS collapses to a speck near 0/0 of the other SRS, and the source is contacted inside the excluded region)"""
    n = 0
    for nm in ('union_coverage', 'diff_coverage', 'intersection_coverage'):
        fn = ctx.fn('mapproxy/util/coverage.py:' + nm)
        defs = Defs(fn.node)

        def transformed(e, depth=5):
            if depth <= 0:
                return False
            if isinstance(e, ast.Call) and isinstance(e.func, ast.Attribute) and e.func.attr == 'transform_to':
                return True
            if isinstance(e, ast.Name):
                # the variable of a comprehension / of a for loop around the use: an element of what is iterated over
                comp = [g_ for x in fn.walk() if isinstance(x, (ast.ListComp, ast.GeneratorExp)) for g_ in x.generators
                        if isinstance(g_.target, ast.Name) and g_.target.id == e.id and inside(e, x)]
                if comp:
                    return all(container(g_.iter, depth - 1) for g_ in comp)
                loop = enclosing(e, ast.For)
                while loop is not None and not (isinstance(loop.target, ast.Name) and loop.target.id == e.id):
                    loop = enclosing(loop, ast.For)
                if loop is not None:
                    return container(loop.iter, depth - 1)
                try:
                    c = fn.canon.expr(e)            # the definition that reaches this use
                except Exception:       # noqa
                    return False
                return not isinstance(c, ast.Name) and transformed(c, depth - 1)
            return False

        def container(e, depth):
            if depth <= 0:
                return False
            if isinstance(e, ast.Name):
                try:
                    e = fn.canon.expr(e)            # (flow sensitive: a list that is re-bound to its transformed self)
                except Exception:       # noqa
                    return False
            if isinstance(e, (ast.ListComp, ast.GeneratorExp)):
                if isinstance(e.elt, ast.Name):
                    gs = [g_ for g_ in e.generators if isinstance(g_.target, ast.Name) and g_.target.id == e.elt.id]
                    return bool(gs) and all(container(g_.iter, depth - 1) for g_ in gs)
                return isinstance(e.elt, ast.Call) and isinstance(e.elt.func, ast.Attribute) and e.elt.func.attr == 'transform_to'
            if isinstance(e, ast.Subscript) and isinstance(e.slice, ast.Slice):
                return container(e.value, depth - 1)
            return False
        sites = []
        for x in fn.walk():
            if is_call(x, 'bbox_polygon') and x.args and isinstance(x.args[0], ast.Attribute) and x.args[0].attr == 'bbox':
                sites.append(('bbox', x.args[0].value, x))
            elif isinstance(x, ast.Attribute) and x.attr == 'geom' and isinstance(x.ctx, ast.Load) and not unparse(x).startswith('shapely'):
                par = getattr(x, '_parent', None)
                if isinstance(par, ast.Call) and is_call(par, 'append') or isinstance(par, (ast.IfExp, ast.ListComp, ast.List)):
                    sites.append(('geom', x.value, x))
        if len(sites) < 2:
            raise Undecided('%s: member geometries not found' % nm)
        for kind, owner, node in sites:
            n += 1
            ok = transformed(owner)
            ctx.check(ok, '%s:%s-of-transformed-member' % (nm, kind), 'the %s of a member is taken after transform_to(<srs of the first member>)' % kind, fn, node,
                      fail='%s uses the %s of a member coverage (%s) without transforming the member to the SRS of the first one' % (nm, kind, unparse(owner)))
    if n < 6:
        raise Undecided('only %d member geometries found' % n)


SHARED_GEOMETRY_CLASSES = [('mapproxy/layer.py', 'MapExtent'), ('mapproxy/util/coverage.py', 'BBOXCoverage'), ('mapproxy/util/coverage.py', 'GeomCoverage'),
                           ('mapproxy/util/coverage.py', 'MultiCoverage')]


@rule('C17.n', floor=10)
def c17n(ctx):
    """the extent a request is clipped with is the extent of its own SRS: extents and coverages of a source are shared by all request
    threads, so what their methods keep on the object does not depend on the request -- outside __init__ a method stores on `self`
    only values computed from `self` (a memo of "the last SRS asked for" next to "its bbox", written one after the other, hands a
    second thread the box of the previous SRS for the new one)"""
    n = 0
    for rel, cname in SHARED_GEOMETRY_CLASSES:
        cls = ctx.repo.cls('%s:%s' % (rel, cname))
        for fn in sorted(ctx.repo.fns_in('%s:%s.' % (rel, cname)), key=lambda f: f.qn):
            if fn.name == '__init__' or fn.qn.count('.') != 2 + rel.count('.') - 1 and False:
                continue
            params = set(fn.params[1:])
            defs = Defs(fn.node)
            bad = []
            for s in fn.walk():
                if isinstance(s, (ast.Assign, ast.AugAssign)):
                    tg = s.targets if isinstance(s, ast.Assign) else [s.target]
                    for t in tg:
                        if isinstance(t, ast.Attribute) and isinstance(t.value, ast.Name) and t.value.id == 'self':
                            if depends(s.value, lambda y: isinstance(y, ast.Name) and y.id in params, defs):
                                bad.append('self.%s = %s' % (t.attr, unparse(s.value)[:40]))
            n += 1
            ctx.check(not bad, '%s.%s:no-request-state-on-shared-object' % (cname, fn.name), 'nothing that depends on the arguments is stored on self', fn,
                      fail='%s.%s stores request dependent state on an object shared between request threads (%s)' % (cname, fn.name, '; '.join(bad)))
    if n < 10:
        raise Undecided('only %d methods of the shared geometry classes found' % n)


@rule('C17.o', floor=2)
def c17o(ctx):
    """the SRS of an upstream GetFeatureInfo is one of the configured list, by its configured code: a request SRS that merely *equals*
    a supported one (EPSG:900913 / EPSG:3857) is replaced by the entry of the list before its code is written into the URL -- the code
    that goes out is `supported_srs.best_srs(<srs>).srs_code` whenever a list is configured"""
    fn = ctx.fn('mapproxy/client/wms.py:WMSInfoClient._query_url')
    g = fn.cfg
    sets = g.find_stmts(lambda s: isinstance(s, ast.Assign) and unparse(s.targets[0]).endswith('params.srs'))
    if not sets:
        raise Undecided('WMSInfoClient._query_url: params.srs is not set')
    ok = True
    for n in sets:
        v = g.stmt[n].value
        owner = v.value if isinstance(v, ast.Attribute) and v.attr == 'srs_code' else None
        if owner is None:
            ok = False
            continue
        if is_call(fn.canon.expr(owner), 'self.supported_srs.best_srs'):
            continue
        # a local that is re-bound to the entry of the list (best_srs) under "a list is configured" before its code is written out
        rebinds = g.find_stmts(lambda s: isinstance(s, ast.Assign) and isinstance(owner, ast.Name) and unparse(s.targets[0]) == owner.id and
                               is_call(s.value, 'self.supported_srs.best_srs'))
        have_list = lambda at: at.op is None and unparse(at.expr) == 'self.supported_srs'       # noqa: E731
        ok = ok and bool(rebinds) and all(g.guarded(r, have_list, True) and g.dominates(0, r) and n in g.reachable(r) for r in rebinds)
    ctx.check(ok, 'WMSInfoClient._query_url:configured-code', 'with a configured list the SRS code of the request is that of supported_srs.best_srs(..)', fn,
              fail='WMSInfoClient._query_url writes the SRS code of the request into the upstream URL: an alias of a supported SRS is sent '
                   'under a code the source is not configured for')
    gi = ctx.fn('mapproxy/client/wms.py:WMSInfoClient.get_info')
    tq = gi.cfg.find(lambda x: is_call(x, 'self._get_transformed_query'))
    ctx.check(bool(tq), 'WMSInfoClient.get_info:unsupported-srs-transformed', 'a request in an unsupported SRS is transformed first', gi)
