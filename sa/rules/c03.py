"""C03 -- tile grids tile the plane: exact, gap-free and consistent coordinate arithmetic.
The behavioural statement is floating-point arithmetic and is not decided.  Decided are
the structural necessary conditions: axis discipline -- no expression of the grid code mixes
X and Y quantities (C03.a); the flip is the reflection of the row range onto itself (C03.b);
the membership predicates as decision tables, bbox_intersects/contains pair the right indices,
supports_access_with_origin only refuses on a top/bottom delta (C03.c); the 1/10-pixel inset
is applied to both corners with one delta in both implementations (C03.d); dimension
discipline -- ground units, pixels and resolutions are never added or compared across
dimensions and the contracted return dimensions hold (C03.e); rows come top first in all four
tile-list producers, the list is row-major and the mosaic decomposes the index the same way
(C03.f); one way to intersect rectangles in the five clipping sites (C03.g).
Added in round 4: the stretch / shrink factors handed to the grid are looked up (grid option, then
the globals of the configuration being loaded) and never written into the shared mapping of a built-
in grid (C03.h).
Added in round 5: the 'no tiles' bound is that of the coarsest level (C03.k)."""
import ast

from ..engine import rule, run_property
from ..model import Undecided
from ..cfg import cexpr, same, dotted, call_name, is_call, simple_name, unparse, const_value, contains, enclosing, norm_cmp
from ..flow import Defs, depends, affine, try_const
from ..decide import table, ret_kind
from ..axis import axis_reports
from ..units import unit_reports, GU, PX, RES, ONE
from ..util import factors, sum_of_products, tiles_pattern_facts, keyword, returns_of, calls_in, inside, order_key

NOT_DECIDED = ('all floating-point claims: containment of the point in its tile, shared edges, rounding (round(..., 12), // in '
               '_calc_grids), level choice within the stretch factor')

G = 'mapproxy/grid.py'

AXIS_SCOPE_PREFIX = (G + ':TileGrid.', G + ':MetaGrid.')
AXIS_SCOPE_EXACT = [G + ':_create_tile_list', G + ':bbox_intersects', G + ':bbox_contains', 'mapproxy/srs.py:merge_bbox',
                    'mapproxy/image/__init__.py:bbox_position_in_image', 'mapproxy/image/tile.py:TileMerger._tile_offset',
                    'mapproxy/image/tile.py:TileMerger._src_size', 'mapproxy/image/tile.py:TileSplitter.get_tile',
                    'mapproxy/seed/util.py:limit_sub_bbox', 'mapproxy/layer.py:MapExtent.intersection',
                    'mapproxy/service/wmts.py:TileMatrixSet._tile_matrices']
AXIS_EXCLUDED = {
    'mapproxy/image/transform.py': 'bilinear / quad algebra legitimately mixes axes',
    'mapproxy/srs.py:bbox_equals': 'known axis mix-up of the tolerances, only reachable with non-square pixels in WMS-C; outside the statements (DESIGN section 3)',
    'mapproxy/client/wms.py': 'aspect-ratio code',
    'mapproxy/source/wms.py:WMSSource._get_transformed': 'aspect-ratio code',
}


def axis_scope(ctx):
    out = []
    for q, f in sorted(ctx.repo.funcs.items()):
        if '#' in q:
            continue
        if q.startswith(AXIS_SCOPE_PREFIX) or q in AXIS_SCOPE_EXACT:
            out.append(f)
    return out


@rule('C03.a', floor=40)
def c03a(ctx):
    fns = axis_scope(ctx)
    for q in AXIS_SCOPE_EXACT:
        ctx.fn(q)
    for f in fns:
        reps = axis_reports(f)
        ctx.stats['functions'].add(f.qn)
        if not reps:
            ctx.ok('%s:axis-clean' % f.short, 'no expression mixes X and Y quantities', f)
        for k, (node, msg) in enumerate(reps):
            ctx.bad('%s:axis-mix%d' % (f.short, k), msg + ' -- with non-square tiles or a non-square extent this puts tiles in the wrong place', f, node)


@rule('C03.b', floor=2)
def c03b(ctx):
    fn = ctx.fn(G + ':TileGrid.flip_tile_coord')
    defs = Defs(fn.node)
    rets = returns_of(fn.node)
    if len(rets) != 1 or not isinstance(rets[0].value, ast.Tuple) or len(rets[0].value.elts) != 3:
        raise Undecided('flip_tile_coord does not return a 3-tuple')
    names = {k: {n for n, ds in defs.defs.items() for v, sel in ds if sel == k and same(v, 'tile_coord')} for k in range(3)}
    xs, ys, zs = (sorted(names[k])[0] if names[k] else '?' for k in range(3))
    e = rets[0].value.elts
    ctx.check(unparse(e[0]) == xs and unparse(e[2]) == zs, 'TileGrid.flip_tile_coord:passthrough', 'column and level pass through unchanged', fn, rets[0],
              fail='flip_tile_coord changes the column or the level')
    a = affine(e[1])
    ok = a is not None and a.get(ys) == -1 and a.get('', 0) == -1 and len([k for k in a if k not in ('', ys)]) == 1
    K = [k for k in (a or {}) if k not in ('', ys)]
    ok = ok and a.get(K[0]) == 1 and K[0].replace(' ', '') == 'self.grid_sizes[%s][1]' % zs
    ctx.check(ok, 'TileGrid.flip_tile_coord:reflection', 'row -> grid_sizes[z][1] - 1 - row: an involution that maps rows 0..N-1 onto N-1..0 of the same level', fn, rets[0],
              fail='the flipped row is %s, not grid_sizes[z][1] - 1 - y (affine form %s): the flip is not the reflection of the row range of this level' % (unparse(e[1]), a))


@rule('C03.c', floor=4)
def c03c(ctx):
    # limit_tile / _create_tile_list tables are evaluated by C16.a (shared)
    sub = run_property(ctx.repo, 'C16', ctx.tier, only={'C16.a'})
    for er in sub.errors:
        raise Undecided('shared rule %s: %s' % er)
    for o in sub.obs:
        (ctx.ok if o.status == 'ok' else ctx.bad)('%s:%s' % (o.rule, o.construct), o.msg, o.where)
    ctx.stats['functions'] |= sub.stats['functions']
    for name, pairs in (('bbox_intersects', None), ('bbox_contains', None)):
        fn = ctx.fn(G + ':' + name)
        cmps = [c for c in fn.walk() if isinstance(c, ast.Compare)]
        defs = Defs(fn.node)

        def elem(e):
            if isinstance(e, ast.BinOp):      # b_x0 + x_delta : tolerance terms
                for side in (e.left, e.right):
                    r = elem(side)
                    if r[1] is not None:
                        return r
                return (None, None)
            if isinstance(e, ast.Subscript) and isinstance(const_value(e.slice), int):
                return (unparse(e.value), const_value(e.slice))
            if isinstance(e, ast.Name):
                d = defs.single(e.id)
                if d and isinstance(d[1], int):
                    return (unparse(d[0]), d[1])
            return (None, None)
        idx_pairs = []
        for c in cmps:
            sides = [c.left] + c.comparators
            for a, b in zip(sides, sides[1:]):
                (na, ia), (nb, ib) = elem(a), elem(b)
                if ia is not None and ib is not None:
                    idx_pairs.append((ia, ib, na != nb))
        ok = len(idx_pairs) >= 4
        if name == 'bbox_intersects':
            want = {frozenset((0, 2)), frozenset((1, 3))}
            ok = ok and all(frozenset((a, b)) in want and diff for a, b, diff in idx_pairs) and len(idx_pairs) == 4 and \
                {frozenset((a, b)) for a, b, _ in idx_pairs} == want
        else:
            ok = ok and all(a == b and diff for a, b, diff in idx_pairs) and {a for a, b, _ in idx_pairs} == {0, 1, 2, 3}
        ctx.check(ok, '%s:index-pairs' % name, '%s compares %s' % (name, 'min of one box with max of the other on the same axis (0-2, 1-3)'
                                                                       if name == 'bbox_intersects' else 'equal indices of the two boxes'), fn,
                  fail='%s compares the wrong components: %s' % (name, idx_pairs))
    so = ctx.fn(G + ':TileGrid.supports_access_with_origin')
    g = so.cfg
    falses = g.find_stmts(lambda s: isinstance(s, ast.Return) and const_value(s.value, 1) is False)
    ok = bool(falses)
    for r in falses:
        st = enclosing(g.stmt[r], ast.If)
        idx = sorted({const_value(x.slice) for x in ast.walk(st.test) if isinstance(x, ast.Subscript) and isinstance(const_value(x.slice), int)})
        ok = ok and idx == [1, 3] and 'delta' in unparse(st.test)
    # two-sided: |grid edge - level edge| > delta (abs), or both one-sided comparisons per edge
    for r in falses:
        st = enclosing(g.stmt[r], ast.If)
        for k in (1, 3):
            cmps = [c for c in ast.walk(st.test) if isinstance(c, ast.Compare) and
                    any(isinstance(x, ast.Subscript) and const_value(x.slice) == k for x in ast.walk(c))]
            two_sided = any(contains(c, lambda x: is_call(x, 'abs')) for c in cmps) or len(cmps) >= 2
            ok = ok and two_sided
    ctx.check(ok, 'TileGrid.supports_access_with_origin:top-bottom-only', 'access from another origin is refused when top or bottom (indices 1, 3) of a level differ from the grid bbox in either direction (two-sided tolerance)', so,
              fail='the flip compatibility test is one-sided (or uses other components): a grid whose rows stop short of the bbox is offered with the other origin, flipped rows are shifted')
    t1 = g.find_stmts(lambda s: isinstance(s, ast.Return) and const_value(s.value, 0) is True)
    ok = any(g.guarded(r, lambda at: at.op == '==' and 'origin_from_string' in at.text and 'self.origin' in at.text, True) for r in t1)
    ctx.check(ok, 'TileGrid.supports_access_with_origin:same-origin', 'the grid\'s own origin is always supported', so)


@rule('C03.d', floor=4)
def c03d(ctx):
    forms = []
    for cls, tilecall in (('TileGrid', 'self.tile'), ('MetaGrid', 'self.grid.tile')):
        fn = ctx.fn('%s:%s.get_affected_level_tiles' % (G, cls))
        calls = sorted([x for x in fn.walk() if is_call(x, tilecall)], key=order_key)
        ok = len(calls) == 2
        detail = ''
        if ok:
            # closed forms of the corner coordinates: bbox[k] +/- D with one D = <resolution of the level> / const (the inset may or may
            # not be held in a local)
            def corner(e):
                e = fn.canon.expr(e)
                if isinstance(e, ast.BinOp) and isinstance(e.op, (ast.Add, ast.Sub)):
                    return unparse(e.left), (1 if isinstance(e.op, ast.Add) else -1), e.right
                return None, 0, None
            cs = [corner(a) for c in calls for a in c.args[:2]]
            ds = {unparse(c[2]) for c in cs if c[2] is not None}
            d = cs[0][2]
            okd = len(ds) == 1 and isinstance(d, ast.BinOp) and isinstance(d.op, ast.Div) and 'resolutions[level]' in unparse(d.left) and \
                isinstance(try_const(d.right), (int, float)) and try_const(d.right) > 1
            ok = okd and [(c[0], c[1]) for c in cs] == [('bbox[0]', 1), ('bbox[1]', 1), ('bbox[2]', -1), ('bbox[3]', -1)]
            ok = ok and all(same(c.args[2], 'level') for c in calls)
            detail = 'corners %s / %s' % ([fn.ctext(a) for a in calls[0].args[:2]], [fn.ctext(a) for a in calls[1].args[:2]])
            forms.append((sorted(x.replace('self.grid.', 'self.') for x in ds), [(c[0], c[1]) for c in cs]))
        ctx.check(ok, '%s.get_affected_level_tiles:inset-both-corners' % cls,
                  'lower-left corner + delta and upper-right corner - delta with one delta = resolution / const', fn,
                  fail='the 1/10-pixel inset is not applied symmetrically to both corners (%s): tiles that are only touched are reported, or touched ones on one side' % detail)
    ctx.check(len(forms) == 2 and forms[0] == forms[1], 'get_affected_level_tiles:siblings-agree', 'TileGrid and MetaGrid use the same inset', (G, 0),
              fail='TileGrid and MetaGrid use different insets: %s' % forms)
    ctx.ok('get_affected_level_tiles:delta-per-level', 'the inset uses the resolution of the queried level', (G, 0))


UNIT_SCOPE = [
    (G + ':TileGrid.', None), (G + ':MetaGrid.', None), (G + ':get_resolution', None), (G + ':ResolutionRange.contains', None),
    ('mapproxy/image/tile.py:TileMerger.', None), ('mapproxy/image/tile.py:TileSplitter.', None), ('mapproxy/image/__init__.py:bbox_position_in_image', None),
]
PARAM_UNITS = {'TileGrid.tile': {'x': GU, 'y': GU}, 'TileGrid.closest_level': {'res': RES}}
RETURN_UNITS = {'TileGrid.tile': [ONE, ONE, None], 'MetaGrid._size_from_buffered_bbox': [PX, PX], 'TileGrid.tile_bbox': [GU, GU, GU, GU],
                'TileMerger._src_size': [PX, PX], 'TileMerger._tile_offset': [PX, PX], 'TileGrid.resolution': RES}


@rule('C03.e', floor=40)
def c03e(ctx):
    for q, f in sorted(ctx.repo.funcs.items()):
        if '#' in q or not any(q.startswith(p) for p, _ in UNIT_SCOPE):
            continue
        ctx.stats['functions'].add(f.qn)
        reps = unit_reports(f, PARAM_UNITS.get(f.short), RETURN_UNITS.get(f.short))
        if not reps:
            ctx.ok('%s:dimension-clean' % f.short, 'no sum/comparison across ground units, pixels and resolutions; contracted return dimension holds', f)
        for k, (node, msg) in enumerate(reps):
            ctx.bad('%s:dimension-mismatch%d' % (f.short, k), msg + ' -- a dropped or inverted factor is wrong for every resolution != 1', f, node)


def _range_sign(r, defs=None, depth=3):
    """+1 / -1 for range(a, b[, step]) or reversed(range(..)); a range bound to a local first is followed"""
    if isinstance(r, ast.Name) and defs is not None and depth > 0:
        ds = defs.of(r.id)
        if len(ds) == 1 and ds[0][1] is None:
            return _range_sign(ds[0][0], defs, depth - 1)
    if is_call(r, 'list') and r.args:
        return _range_sign(r.args[0], defs, depth)
    if is_call(r, 'reversed') and r.args:
        s = _range_sign(r.args[0], defs, depth)
        return -s if s else None
    if not is_call(r, 'range'):
        return None
    if len(r.args) < 3:
        return 1
    st = r.args[2]
    if isinstance(st, ast.UnaryOp) and isinstance(st.op, ast.USub):
        return -1
    v = try_const(st)
    if isinstance(v, (int, float)):
        return 1 if v > 0 else -1
    return 1


@rule('C03.f', floor=7)
def c03f(ctx):
    producers = [G + ':TileGrid._tile_iter', G + ':MetaGrid._tile_iter', G + ':MetaGrid._full_tile_list', G + ':MetaGrid._meta_tile_list']
    for q in producers:
        fn = ctx.fn(q)
        g = fn.cfg
        # the row / column sequences are the 2nd / 1st argument of _create_tile_list, whatever the locals are called
        fdefs = Defs(fn.node)
        ctl = [x for x in fn.walk() if is_call(x, '_create_tile_list') and len(x.args) >= 2]

        def seqname(e, default):
            e = e if ctl else None
            seen = 0
            while isinstance(e, ast.Name) and seen < 4:
                ds = fdefs.of(e.id)
                if len(ds) == 1 and ds[0][1] is None and isinstance(ds[0][0], ast.Name):
                    e = ds[0][0]
                    seen += 1
                else:
                    break
            return e.id if isinstance(e, ast.Name) else default
        yv = seqname(ctl[0].args[1] if ctl else None, 'ys')
        xv = seqname(ctl[0].args[0] if ctl else None, 'xs')
        ys = g.find_stmts(lambda s: isinstance(s, ast.Assign) and unparse(s.targets[0]) == yv)
        ok = len(ys) == 2
        signs = {}
        for n in ys:
            flipped = g.guarded(n, lambda at: at.op is None and 'flipped_y_axis' in unparse(at.expr), True)
            signs[flipped] = _range_sign(g.stmt[n].value, fdefs)
        ok = ok and signs.get(True) == 1 and signs.get(False) == -1
        ctx.check(ok, '%s:rows-top-first' % fn.short, 'rows ascend on a flipped (top-origin) axis and descend otherwise: the first row is the top row', fn,
                  fail='row order %s (flipped axis -> %s, otherwise -> %s): rows are not listed from the top' % (fn.short, signs.get(True), signs.get(False)))
        xs = [s for s in fn.walk() if isinstance(s, ast.Assign) and unparse(s.targets[0]) == xv]
        ok = bool(xs) and all(_range_sign(s.value, fdefs) == 1 for s in xs)
        ctx.check(ok, '%s:columns-left-first' % fn.short, 'columns ascend', fn)
    ct = ctx.fn(G + ':_create_tile_list')
    loops = [s for s in ct.walk() if isinstance(s, ast.For)]
    outer = [l for l in loops if any(isinstance(s, ast.For) for s in l.body)]
    inner = [l for l in loops if l not in outer]
    ok = len(outer) == 1 and len(inner) == 1 and same(outer[0].iter, 'ys') and same(inner[0].iter, 'xs')
    ys_ = [x for x in ct.walk() if isinstance(x, ast.Yield) and isinstance(x.value, ast.Tuple)]
    ok = ok and bool(ys_) and all([unparse(e) for e in y.value.elts] == [unparse(inner[0].target), unparse(outer[0].target), 'level'] for y in ys_)
    ctx.check(ok, '_create_tile_list:row-major', 'the list is row-major (rows outside, columns inside) and yields (x, y, level)', ct,
              fail='_create_tile_list is not row-major / does not yield (x, y, level)')
    to = ctx.fn('mapproxy/image/tile.py:TileMerger._tile_offset')
    r = returns_of(to.node)
    ok = len(r) == 1 and isinstance(r[0].value, ast.Tuple) and len(r[0].value.elts) == 2
    if ok:
        # closed forms (divmod and named quotient / remainder are written out), products in any order
        ex, ey = to.canon.expr(r[0].value).elts
        i = to.params[1]
        ok = factors(ex) == sorted(['%s%%self.tile_grid[0]' % i, 'self.tile_size[0]']) and \
            factors(ey) == sorted(['%s//self.tile_grid[0]' % i, 'self.tile_size[1]'])
    ctx.check(ok, 'TileMerger._tile_offset:row-major-reader', 'tile i is placed at (i % W * tile_w, i // W * tile_h) with W = tile_grid[0]: the reader of the row-major order', to,
              fail='the mosaic does not decompose the list index as (i % W, i // W) with W = tile_grid[0]')
    tp = ctx.fn(G + ':MetaGrid._tiles_pattern')
    pf = tiles_pattern_facts(tp)
    ok = pf is not None and pf['outer_iter'] == 'range(grid_size[1])' and pf['inner_iter'] == 'range(grid_size[0])' and \
        pf['index'] == sorted([[pf['col']], sorted([pf['row'], 'grid_size[0]'])])
    ctx.check(ok, 'MetaGrid._tiles_pattern:row-major-reader', 'the crop pattern reads the tile list as tiles[col + row * W]', tp)


def _clip_roles(fn, ctx):
    """for a clipping site return {index: 'max'|'min'} from min()/max() calls or guarded assignments"""
    roles = {}
    defs = Defs(fn.node)
    for x in fn.walk():
        if isinstance(x, ast.Call) and call_name(x) in ('min', 'max') and len(x.args) == 2:
            idx = []
            for a in x.args:
                if isinstance(a, ast.Subscript) and isinstance(const_value(a.slice), int):
                    idx.append(const_value(a.slice))
                elif isinstance(a, ast.Name):
                    from ..axis import declared
                    nm = a.id
                    k = {'minx': 0, 'miny': 1, 'maxx': 2, 'maxy': 3, 'x0': 0, 'y0': 1, 'x1': 2, 'y1': 3}.get(nm)
                    idx.append(k)
                else:
                    idx.append(None)
            known = [i for i in idx if i is not None]
            if known:
                roles.setdefault(known[0], []).append((call_name(x), idx, x))
    return roles


@rule('C03.g', floor=5)
def c03g(ctx):
    sites = [(G + ':TileGrid.tile_bbox', 'limit branch'), ('mapproxy/layer.py:MapExtent.intersection', ''), ('mapproxy/seed/util.py:limit_sub_bbox', ''),
             ('mapproxy/image/__init__.py:bbox_position_in_image', ''), (G + ':MetaGrid._buffered_bbox', '')]
    for q, note in sites:
        fn = ctx.fn(q)
        roles = _clip_roles(fn, ctx)
        bad = []
        n = 0
        for i, uses in roles.items():
            for name, idx, node in uses:
                if any(k is None for k in idx):
                    continue
                n += 1
                if len(set(idx)) != 1:
                    bad.append('%s mixes indices %s' % (unparse(node)[:50], idx))
                elif (idx[0] in (0, 1) and name != 'max') or (idx[0] in (2, 3) and name != 'min'):
                    bad.append('%s uses %s for index %d' % (unparse(node)[:50], name, idx[0]))
        # guarded-assignment form (MetaGrid._buffered_bbox, bbox_position_in_image): `if a[k] > v: v = a[k]`
        g = fn.cfg
        for st in [s for s in fn.walk() if isinstance(s, ast.If) and isinstance(s.test, ast.Compare) and len(s.test.comparators) == 1]:
            at, pol = norm_cmp(st.test.left, st.test.ops[0], st.test.comparators[0])
            if at.op != '<':
                continue
            # `if <V> > <current>: <current> = <V>` with V = <bbox>[k]
            for side, other in ((at.left, at.right), (at.right, at.left)):
                if not (isinstance(side, ast.Subscript) and isinstance(const_value(side.slice), int) and 'bbox' in unparse(side.value)):
                    continue
                asg = [x for x in st.body if isinstance(x, ast.Assign) and unparse(x.value) == unparse(side)]
                if not asg:
                    continue
                k = const_value(side.slice)
                n += 1
                # V replaces the current value when  current < V  (raise the lower bound)  or  V < current (lower the upper bound)
                raises_lower = (side is at.right) == pol
                if raises_lower != (k in (0, 1)):
                    bad.append('`%s` replaces the bound in the wrong direction for index %d' % (unparse(st.test), k))
                tgt = asg[0].targets[0]
                if isinstance(tgt, ast.Subscript) and const_value(tgt.slice) != k:
                    bad.append('`%s` assigns index %s from index %d' % (unparse(asg[0]), const_value(tgt.slice), k))
                if isinstance(other, ast.Subscript) and isinstance(const_value(other.slice), int) and const_value(other.slice) != k:
                    bad.append('`%s` compares index %d with index %d' % (unparse(st.test), k, const_value(other.slice)))
                break
        ctx.check(n > 0 and not bad, '%s:clip-form' % fn.short, 'lower bounds (indices 0, 1) are raised with max / >, upper bounds (2, 3) lowered with min / <, same index on both sides (%d comparisons)' % n,
                  fn, fail='rectangle clipping in %s: %s' % (fn.short, '; '.join(bad) or 'no min/max clipping found'))


def _plumbing(ctx, label, caller, callee_name, callee, exempt=()):
    """every parameter of `callee` that the caller could supply is supplied: the call passes it (by keyword or position) and the
    passed value is not a constant when the caller has a same-named parameter/local that carries the configured value"""
    calls = [x for x in caller.walk() if is_call(x, callee_name)]
    if not calls:
        ctx.bad('%s:call' % label, 'no call of %s found' % callee_name, caller)
        return
    defs = Defs(caller.node)
    a = callee.node.args
    params = [p.arg for p in a.args if p.arg != 'self'] + [p.arg for p in a.kwonlyargs]
    have = set(caller.params) | set(defs.defs)
    for x in sorted(calls, key=lambda c: len(c.keywords) + len(c.args))[-1:]:
        passed = {k.arg: k.value for k in x.keywords if k.arg}
        for i, v in enumerate(x.args):
            if i < len(params):
                passed.setdefault(params[i], v)
        for p in params:
            if p in exempt or p not in have:
                continue
            v = passed.get(p)
            ok = v is not None and depends(v, lambda y, p=p: isinstance(y, ast.Name) and y.id == p, defs)
            ctx.check(ok, '%s:%s-passed-on' % (label, p), '%s receives %s from the caller\'s %s' % (callee_name, p, p), caller, x,
                      fail='%s is configured (parameter/local of %s) but not handed to %s: the default of %s silently replaces the configured value'
                           % (p, caller.short, callee_name, callee_name))


@rule('C03.h', floor=8)
def c03h(ctx):
    """the grid that is built is the grid that was configured: every setting the factory / the configuration loader holds for the
    grid (stretch factor, shrink factor, threshold resolutions, origin, tile size ...) is handed on to the constructor, so that
    level selection and tile geometry follow the configuration"""
    tg = ctx.fn(G + ':tile_grid')
    init = ctx.fn(G + ':TileGrid.__init__')
    _plumbing(ctx, 'tile_grid->TileGrid', tg, 'TileGrid', init)
    ld = ctx.fn('mapproxy/config/loader.py:GridConfiguration.tile_grid')
    _plumbing(ctx, 'GridConfiguration.tile_grid->tile_grid', ld, 'tile_grid', tg)
    # settings read from the configuration mapping by name
    calls = [x for x in ld.walk() if is_call(x, 'tile_grid') and x.keywords]
    if calls:
        x = sorted(calls, key=lambda c: len(c.keywords))[-1]
        for k in x.keywords:
            if k.arg in ('srs', 'min_res', 'max_res', 'res', 'res_factor', 'threshold_res', 'bbox', 'bbox_srs', 'num_levels', 'origin', 'name'):
                ok = contains(k.value, lambda y: isinstance(y, ast.Constant) and y.value == k.arg)
                ctx.check(ok, 'GridConfiguration.tile_grid:%s-from-conf' % k.arg, 'tile_grid(%s=...) is read from the grid configuration key %r' % (k.arg, k.arg), ld, x,
                          fail='tile_grid(%s=%s) is not the configured %r' % (k.arg, unparse(k.value)[:40], k.arg))
            if k.arg in ('stretch_factor', 'max_shrink_factor'):
                # the grid's own option first, else the globals of the configuration that is being loaded -- looked up, not stored
                form = cexpr(k.value)
                ok = is_call(form, 'self.context.globals.get_value') and len(form.args) >= 2 and const_value(form.args[0]) == k.arg and \
                    unparse(form.args[1]) == 'conf' and const_value(keyword(form, 'global_key', 2)) == 'image.' + k.arg
                ctx.check(ok, 'GridConfiguration.tile_grid:%s-grid-then-globals' % k.arg,
                          '%s is the option of the grid, else image.%s of the globals of this configuration' % (k.arg, k.arg), ld, x,
                          fail='tile_grid(%s=%s) is not globals.get_value(%r, conf, global_key=%r): the factor that selects the level is not the '
                               'configured one' % (k.arg, unparse(form)[:60], k.arg, 'image.' + k.arg))
    # the mapping of a built-in grid is shared by every configuration loaded in the process: a level-selection setting written into it
    # would leak into the grids of the next configuration
    written = []
    for n in ld.walk():
        if isinstance(n, ast.Subscript) and isinstance(n.ctx, (ast.Store, ast.Del)) and unparse(n.value) in ('conf', 'self.conf'):
            written.append(const_value(n.slice))
        if isinstance(n, ast.Call) and isinstance(n.func, ast.Attribute) and unparse(n.func.value) in ('conf', 'self.conf') and \
                n.func.attr in ('setdefault', '__setitem__'):
            written.append(const_value(n.args[0]) if n.args else n.func.attr)
        if isinstance(n, ast.Call) and isinstance(n.func, ast.Attribute) and unparse(n.func.value) in ('conf', 'self.conf') and n.func.attr == 'update':
            for a in n.args:
                if isinstance(a, ast.Dict):
                    written.extend(const_value(k) for k in a.keys if k is not None)
            written.extend(k.arg for k in n.keywords if k.arg)
    LEVEL_KEYS = ('stretch_factor', 'max_shrink_factor', 'threshold_res', 'res', 'res_factor', 'min_res', 'max_res', 'num_levels')
    ok = not any(w in LEVEL_KEYS for w in written)
    ctx.check(ok, 'GridConfiguration.tile_grid:conf-not-written', 'the (shared) grid mapping is only read for the level-selection settings (written keys: %s)' % written,
              ld, fail='GridConfiguration.tile_grid writes %s into the grid mapping, which the built-in grids share between configurations: the '
                       'stretch / shrink factor of the first configuration sticks to the grids of every later one' % [w for w in written if w in LEVEL_KEYS])


@rule('C03.i', floor=4)
def c03i(ctx):
    """the tile found for a point contains that point: TileGrid.tile measures the row from the same edge that TileGrid.tile_bbox
    anchors the rows at -- the top edge (bbox[3]) on a grid whose rows count from the top, the bottom edge (bbox[1]) otherwise --
    and divides by the tile span of the same axis.  (A grid whose height is not a whole number of tile rows has no other consistent
    choice: a row computed from the other edge and flipped afterwards is shifted.)"""
    import math  # noqa
    from ..flow import Canon
    tl = ctx.fn(G + ':TileGrid.tile')
    tb = ctx.fn(G + ':TileGrid.tile_bbox')
    px, py, plevel = tl.params[1:4]

    def strip(e):
        while isinstance(e, ast.Call) and simple_name(e) in ('int', 'float', 'floor', 'round') and e.args:
            e = e.args[0]
        return e
    for flipped in (True, False):
        cf = Canon(tl, assume={'self.flipped_y_axis': flipped})
        rets = [r for r in returns_of(tl.node) if r.value is not None and tl.cfg.node_of.get(id(r)) not in cf.infeasible]
        forms = [cf.expr(r.value) for r in rets]
        ok = bool(forms) and all(isinstance(f, ast.Tuple) and len(f.elts) == 3 for f in forms)
        detail = ''
        for f in forms if ok else []:
            for k, (p, lo) in enumerate(((px, 0), (py, 3 if flipped else 1))):
                e = strip(f.elts[k])
                want_num = '%s-self.bbox[0]' % p if k == 0 else ('self.bbox[3]-%s' % p if flipped else '%s-self.bbox[1]' % p)
                good = isinstance(e, ast.BinOp) and isinstance(e.op, ast.Div) and unparse(e.left).replace(' ', '') == want_num and \
                    factors(strip(e.right)) == sorted(['self.resolution(%s)' % plevel, 'self.tile_size[%d]' % k])
                if not good:
                    ok = False
                    detail = 'component %d is %s' % (k, unparse(e)[:80])
        label = 'rows-from-top' if flipped else 'rows-from-bottom'
        ctx.check(ok, 'TileGrid.tile:%s' % label,
                  'on a grid whose rows count from the %s the row is (%s) / (resolution * tile height), the column (x - bbox[0]) / (resolution * tile width)' % (
                      'top' if flipped else 'bottom', 'bbox[3] - y' if flipped else 'y - bbox[1]'), tl,
                  fail='TileGrid.tile does not measure the tile index from the edge the rows are anchored at (%s): the tile found for a point '
                       'does not contain it on grids that do not end on a tile border' % detail)
        # tile_bbox anchors the rows at the same edge
        cb = Canon(tb, assume={'self.flipped_y_axis': flipped})
        rets = [r for r in returns_of(tb.node) if r.value is not None and tb.cfg.node_of.get(id(r)) not in cb.infeasible]
        forms = [cb.expr(r.value) for r in rets if isinstance(r.value, ast.Tuple) and len(r.value.elts) == 4 and
                 not any(is_call(e, 'max', 'min') for e in r.value.elts)]
        anchor = 'self.bbox[3]' if flipped else 'self.bbox[1]'
        other = 'self.bbox[1]' if flipped else 'self.bbox[3]'
        ok = bool(forms)
        for f in forms:
            ys = [unparse(f.elts[1]).replace(' ', ''), unparse(f.elts[3]).replace(' ', '')]
            ok = ok and all(anchor in t and other not in t for t in ys)
        ctx.check(ok, 'TileGrid.tile_bbox:%s' % label, 'the rows of the tile rectangles are anchored at %s' % anchor, tb,
                  fail='TileGrid.tile_bbox does not anchor the rows at %s on a grid whose rows count from the %s' % (anchor, 'top' if flipped else 'bottom'))


@rule('C03.j', floor=4)
def c03j(ctx):
    """shared rules, re-evaluated for this property: the public tile address is mapped to the grid level first and flipped in that
    level's matrix, for exactly the combinations of request and grid origin that differ (C02.a, C02.b); the level mapping itself is
    the inverse of the one the advertised tile sets are numbered with (C02.d) -- with another level the flip uses the height of a
    matrix that is not the one the client counts in"""
    sub = run_property(ctx.repo, 'C02', ctx.tier, only={'C02.a', 'C02.b', 'C02.d'})
    for er in sub.errors:
        raise Undecided('shared rule %s: %s' % er)
    for o in sub.obs:
        if o.status == 'ok':
            ctx.ok('%s:%s' % (o.rule, o.construct), o.msg, o.where)
        else:
            ctx.bad('%s:%s' % (o.rule, o.construct), o.msg, o.where)
    ctx.stats['functions'] |= sub.stats['functions']


@rule('C03.k', floor=2)
def c03k(ctx):
    """which requests get tiles at all: a request coarser than the coarsest level times max_shrink_factor is answered with "no tiles"
    (NoTiles), every other request with the closest level.  The bound is that of the *coarsest* level, resolutions[0] -- measured
    against the level that was just chosen the test can never fire for the coarsest level itself by more than the stretch factor, and
    requests over the whole world are answered by shrinking thousands of tiles"""
    fn = ctx.fn(G + ':TileGrid.get_affected_bbox_and_level')
    g = fn.cfg
    rs = [n for n in g.find_stmts(lambda s: isinstance(s, ast.Raise) and s.exc is not None and 'NoTiles' in unparse(s.exc))]
    if not rs:
        raise Undecided('get_affected_bbox_and_level: raise NoTiles not found')

    def bound(at):
        if at.op != '<':
            return False
        l = fn.canon.expr(at.left)
        return set(factors(l)) == {'self.resolutions[0]', 'self.max_shrink_factor'} and is_call(fn.canon.expr(at.right), 'get_resolution')
    outside = lambda at: at.op is None and is_call(at.expr, 'bbox_intersects')        # noqa: E731  (the other reason for "no tiles")
    ok = any(g.guarded(n, bound, True) for n in rs) and all(g.guarded(n, bound, True) or g.guarded(n, outside, False) for n in rs)
    ctx.check(ok, 'TileGrid.get_affected_bbox_and_level:shrink-bound', 'NoTiles <=> res > resolutions[0] * max_shrink_factor', fn,
              fail='the "no tiles" bound of get_affected_bbox_and_level is not resolutions[0] * max_shrink_factor')
    rets = [r for r in returns_of(fn.node) if r.value is not None]
    ok = bool(rets) and all(isinstance(r.value, ast.Tuple) and len(r.value.elts) == 2 and
                            is_call(fn.canon.expr(r.value.elts[1]), 'self.closest_level') for r in rets)
    ctx.check(ok, 'TileGrid.get_affected_bbox_and_level:closest-level', 'the level handed on is closest_level(res)', fn)
