"""C10 -- authorization is enforced: denied layers stay dark, limited areas are clipped.
Decided: in every request handler the authorization call dominates every call that
produces layer content (C10.a); the value returned by the authorization call flows into the
coverage argument of the renderer / merger / feature-info gate (C10.b); the permit/deny
logic of every authorization function is deny-by-default, with False as the default of every
feature lookup (C10.c); limits clip: load_limited_to builds a clipping coverage, the layer
coverage reaches the merger, the single-layer fast path is off whenever a coverage applies
and the global mask lies on every path to the result (C10.d); tile rendering masks or
returns empty for tiles not contained in the limit (C10.e); feature info is gated by the
limit (C10.f).
Added in round 4: a re-projected limit geometry keeps its holes (C10.k, shared C17.i); the clipped
tile is alpha-composited onto a transparent canvas, never pasted with itself as mask (C10.l).
Added in round 5: the geometry of a limit is taken as given (C10.m).
Added in round 6: enclosing polygons are painted first (C10.n)."""
import ast

from ..engine import rule
from ..model import Undecided
from ..cfg import cexpr, same, same_args, dotted, call_name, is_call, simple_name, unparse, const_value, contains, enclosing, implied
from ..flow import Canon, Defs, depends
from ..decide import table, ret_kind, expr_table
from ..util import keyword, returns_of, calls_in, inside, order_key, arg_of

NOT_DECIDED = 'raster accuracy of the clip (which pixels end up transparent), geometry transformation, the callback itself'

WMS = 'mapproxy/service/wms.py'
TILE = 'mapproxy/service/tile.py'
WMTS = 'mapproxy/service/wmts.py'
KML = 'mapproxy/service/kml.py'
DEMO = 'mapproxy/service/demo.py'

# handler -> (authorization calls that must dominate, content calls)
HANDLERS = {
    WMS + ':WMSServer.map': (('self.authorized_layers', 'self.filter_actual_layers'),
                             ('render', 'merge', 'LayerRenderer')),
    WMS + ':WMSServer.featureinfo': (('self.authorized_layers', 'self.filter_actual_layers'), ('get_info',)),
    WMS + ':WMSServer.capabilities': (('self.authorized_capability_layers',), ('Capabilities',)),
    WMS + ':WMSServer.legendgraphic': (('self.authorized_layers', 'self.authorized_capability_layers'), ('legend', 'concat_legends')),
    TILE + ':TileServer.map': (('self.layer',), ('render',)),
    TILE + ':TileServer.tms_capabilities': (('self.layer', 'self.authorized_tile_layers'),
                                            ('self._render_layer_template', 'self._render_template')),
    KML + ':KMLServer.map': (('self.authorize_tile_layer',), ('render',)),
    KML + ':KMLServer.kml': (('self.authorize_tile_layer',), ('self._get_subtiles', 'render', 'self._tile_wgs_bbox')),
    WMTS + ':WMTSServer.tile': (('self.authorize_tile_layer',), ('render',)),
    WMTS + ':WMTSServer.featureinfo': (('self.authorize_tile_layer',), ('get_info',)),
    WMTS + ':WMTSServer.capabilities': (('self.authorized_tile_layers',), ('self.capabilities_class',)),
    DEMO + ':DemoServer.handle': (('self.authorized_demo',), ('self._render_wms_template', 'self._render_tms_template',
                                                              'self._render_wmts_template', 'self._render_capabilities_template',
                                                              'self._render_template', 'self.read_capabilities', 'handler')),
}
EXEMPT_HANDLERS = {TILE + ':TileServer.tms_root_resource': 'lists service versions only, no layer content'}


@rule('C10.a', floor=20)
def c10a(ctx):
    for qn, (auths, contents) in sorted(HANDLERS.items()):
        fn = ctx.fn(qn)
        g = fn.cfg
        anodes = [n for n, x in g.find(lambda x: is_call(x, *auths))]
        cnodes = g.find(lambda x: is_call(x, *contents))
        if not cnodes:
            ctx.bad('%s:content' % fn.short, 'none of the content calls %s found: the handler table is out of date' % (contents,), fn)
            continue
        if not anodes:
            ctx.bad('%s:authorization' % fn.short,
                    'the handler serves layer content (%s) without ever consulting the authorization callback (%s)' % (
                        ', '.join(sorted({call_name(x) for n, x in cnodes})), ' / '.join(auths)), fn, cnodes[0][1])
            continue
        # every auth call that must be present (all of `auths` that exist in the function are required to dominate)
        for n, x in cnodes:
            missing = []
            for a in auths:
                an = [m for m, y in g.find(lambda y: is_call(y, a))]
                if not an:
                    continue
                if g.reaches_avoiding(0, n, avoid=set(an)) or n in an and False:
                    missing.append(a)
            # at least one auth call must dominate; for handlers with two required calls both must
            need_all = qn.endswith(('WMSServer.map', 'WMSServer.featureinfo'))
            present = [a for a in auths if g.find(lambda y: is_call(y, a))]
            ok = not missing if need_all else not g.reaches_avoiding(0, n, avoid=set(anodes))
            # an authorization call that is an argument of the content call itself is evaluated before it
            inner = {a for a in auths if any(y is not x and is_call(y, a) for arg in list(x.args) + [k_.value for k_ in x.keywords] + [x.func] for y in ast.walk(arg))}
            if not ok and inner:
                ok = (set(missing) <= inner) if need_all else True
            if need_all and len(present) < len(auths):
                ok = False
                missing = [a for a in auths if a not in present]
            k = sum(1 for o in ctx.obs if o.construct.startswith('%s:%s-after-auth' % (fn.short, simple_name(x))))
            ctx.check(ok, '%s:%s-after-auth%s' % (fn.short, simple_name(x), k or ''),
                      '%s is dominated by %s' % (call_name(x), ' and '.join(auths) if need_all else ' / '.join(auths)), fn, x,
                      fail='content call %s is reachable without passing %s (path: %s)' % (
                          call_name(x), ' / '.join(missing or auths), g.path(0, n, skip_edges=()) or '?'))
    # TileServer.layer (helper used by map / tms_capabilities) authorizes before it returns a layer
    fn = ctx.fn(TILE + ':TileServer.layer')
    g = fn.cfg
    an = [n for n, x in g.find(lambda x: is_call(x, 'self.authorize_tile_layer'))]
    rets = g.find_stmts(lambda s: isinstance(s, ast.Return))
    # (a return statement that contains the call itself evaluates it before it returns)
    ok = bool(an) and bool(rets) and all(r in an or not g.reaches_avoiding(0, r, avoid=set(an)) for r in rets)
    ctx.check(ok, 'TileServer.layer:authorizes', 'TileServer.layer() returns a layer only after authorize_tile_layer()', fn,
              fail='TileServer.layer() can return a layer without asking authorize_tile_layer()')


@rule('C10.a2', floor=10, tier='thorough')
def c10a_complete(ctx):
    """handler table completeness: every request_handler_name / request_methods entry of a Server subclass is
    in the table or explicitly exempt"""
    names = set()
    for m in ctx.repo.modules.values():
        for x in ast.walk(m.tree):
            if isinstance(x, ast.Assign) and any(unparse(t).endswith('request_handler_name') for t in x.targets):
                v = const_value(x.value, None)
                if isinstance(v, str):
                    names.add(v)
    servers = ctx.repo.cls('mapproxy/service/base.py:Server').subclasses()
    for c in servers:
        for nm in sorted(names):
            f = c.own_method(nm)
            if f is None:
                continue
            ok = f.qn in HANDLERS or f.qn in EXEMPT_HANDLERS
            ctx.check(ok, 'handler-table:%s' % f.short, 'request handler %s is covered by the authorization table%s' % (
                f.short, ' (exempt: %s)' % EXEMPT_HANDLERS[f.qn] if f.qn in EXEMPT_HANDLERS else ''), f,
                fail='request handler %s is not in the authorization table of C10.a: a new handler bypasses the rule' % f.short)


@rule('C10.b', floor=6)
def c10b(ctx):
    # tile services: coverage= argument of render is the value returned by the authorization call
    for qn, auth in ((TILE + ':TileServer.map', 'self.layer'), (KML + ':KMLServer.map', 'self.authorize_tile_layer'),
                     (WMTS + ':WMTSServer.tile', 'self.authorize_tile_layer')):
        fn = ctx.fn(qn)
        defs = Defs(fn.node)
        rs = [x for x in fn.walk() if is_call(x, 'render') and keyword(x, 'coverage') is not None or is_call(x, 'layer.render', 'tile_layer.render')]
        ok = bool(rs)
        for r in rs:
            cov = keyword(r, 'coverage', 2)
            ok = ok and cov is not None and depends(cov, lambda y: is_call(y, auth), defs) and not isinstance(cov, ast.Constant)
        ctx.check(ok, '%s:limit-passed-to-render' % fn.short, 'render(coverage=...) receives the limit returned by %s' % auth, fn,
                  fail='the limit returned by the authorization call is not passed to render(coverage=...): a limited layer is served unclipped')
    fn = ctx.fn(WMS + ':WMSServer.map')
    defs = Defs(fn.node)
    mg = [x for x in fn.walk() if is_call(x, 'merger.merge')]
    ok = bool(mg) and all(keyword(m, 'coverage') is not None and depends(keyword(m, 'coverage'), lambda y: is_call(y, 'self.authorized_layers'), defs) for m in mg)
    ctx.check(ok, 'WMSServer.map:global-limit-to-merger', 'merger.merge(coverage=...) receives the global limit of authorized_layers()', fn,
              fail='the global limited_to geometry is not handed to the merger: the response is not clipped')
    fa = [x for x in fn.walk() if is_call(x, 'self.filter_actual_layers')]
    ok = bool(fa) and all(len(x.args) == 3 and same(x.args[0], 'actual_layers') and
                          depends(x.args[2], lambda y: is_call(y, 'self.authorized_layers'), defs) for x in fa)
    ctx.check(ok, 'WMSServer.map:permissions-to-filter', 'filter_actual_layers receives the layers to render and the permissions of authorized_layers()', fn)
    # the list handed to the renderer: filled from actual_layers.values() only -- by extend() in a loop over it, or as the flattening
    # comprehension [l for ls in actual_layers.values() for l in ls] -- after the filter call
    lr = [x for x in fn.walk() if is_call(x, 'LayerRenderer') and x.args]
    rname = lr[0].args[0].id if lr and isinstance(lr[0].args[0], ast.Name) else 'render_layers'
    ex = [x for x in fn.walk() if is_call(x, rname + '.extend')]
    ok1 = bool(ex) and all(enclosing(x, ast.For) is not None and same(enclosing(x, ast.For).iter, 'actual_layers.values()') for x in ex)
    vals = [v for v, sel in defs.of(rname) if not (isinstance(v, ast.List) and not v.elts)]
    ok2 = bool(vals) and not ex and all(
        isinstance(c, ast.ListComp) and len(c.generators) == 2 and not any(gn.ifs for gn in c.generators) and
        same(c.generators[0].iter, 'actual_layers.values()') and isinstance(c.generators[0].target, ast.Name) and
        isinstance(c.generators[1].iter, ast.Name) and c.generators[1].iter.id == c.generators[0].target.id and
        isinstance(c.generators[1].target, ast.Name) and isinstance(c.elt, ast.Name) and c.elt.id == c.generators[1].target.id
        for c in vals)
    ok = (ok1 and not vals) or ok2
    g = fn.cfg
    fan = [g.node_for(x) for x in fa]
    src = [g.node_for(x) for x in ex] + [g.node_for(c) for c in vals]
    ok = ok and bool(fan) and all(any(g.dominates(f_, n) and f_ != n for f_ in fan) for n in src)
    ctx.check(ok, 'WMSServer.map:renders-filtered-layers', 'the layers handed to the renderer are taken from the filtered actual_layers', fn)
    for qn, auth in ((WMS + ':WMSServer.featureinfo', 'self.authorized_layers'), (WMTS + ':WMTSServer.featureinfo', 'self.authorize_tile_layer')):
        fn = ctx.fn(qn)
        g = fn.cfg
        defs = Defs(fn.node)
        gi = g.find(lambda x: is_call(x, 'get_info'))
        gate = lambda at: at.mentions(lambda y: is_call(y, 'coverage.contains') and y.args and 'coord' in unparse(y.args[0]))
        # every path to a get_info either found the query point inside the limit or found no limit at all
        nolimit = lambda at: at.op is None and same(at.expr, 'coverage')
        ok = bool(gi) and all(g.guarded_any(n, [(gate, True), (nolimit, False)]) for n, x in gi)
        cov = [v for v, sel in defs.of('coverage')]
        ok = ok and bool(cov) and all(contains(v, lambda y: is_call(y, auth)) for v in cov)
        ctx.check(ok, '%s:limit-gates-feature-info' % fn.short,
                  'get_info is not reachable when the limit returned by %s does not contain the query point' % auth, fn,
                  fail='feature info is fetched although the query point lies outside the limit returned by the authorization call')
        if qn.startswith(WMTS):
            a = [x for x in fn.walk() if is_call(x, auth)]
            ok = bool(a) and all(const_value(keyword(x, 'featureinfo', 2)) is True for x in a)
            ctx.check(ok, 'WMTSServer.featureinfo:asks-featureinfo-permission', 'authorize_tile_layer(..., featureinfo=True)', fn)


def _auth_table(ctx, fn, feature_keys):
    """decision table of an authorize_tile_layer implementation -> list of problems"""
    def cls(node):
        if node is None:
            return 'permit'
        if isinstance(node, ast.Return):
            return 'permit'
        if isinstance(node, ast.Raise):
            s = unparse(node.exc)
            return '401' if '401' in s else '403' if '403' in s else 'raise'
        return '?'
    tab = ctx.rows(table(fn.node.body, cls))
    A = tab.atoms
    a_cb = [a for a in A if 'mapproxy.authorize' in a]
    a_un = [a for a in A if "'unauthenticated'" in a]
    a_fu = [a for a in A if "'full'" in a]
    a_pa = [a for a in A if "'partial'" in a]
    a_ft = [a for a in A if ' is True' in a and '.get(' in a]
    probs = []
    if not (len(a_cb) == 1 and len(a_un) == 1 and len(a_fu) == 1 and len(a_pa) == 1 and len(a_ft) == 1):
        return ['unexpected test atoms: %s' % A], tab
    cbo = tab.atom_objs[a_cb[0]]
    for asg, out, _ in tab.assignments():
        has_cb = asg[a_cb[0]]            # atom is `'mapproxy.authorize' in env`
        un, fu, pa, ft = asg[a_un[0]], asg[a_fu[0]], asg[a_pa[0]], asg[a_ft[0]]
        if sum([un, fu, pa]) > 1:
            continue                      # the authorized value equals one string only
        if not has_cb:
            want = 'permit'
        elif un:
            want = '401'
        elif fu:
            want = 'permit'
        elif pa and ft:
            want = 'permit'
        else:
            want = '403'
        if out != want:
            probs.append('callback=%s unauthenticated=%s full=%s partial=%s feature-is-True=%s -> %s, expected %s' % (has_cb, un, fu, pa, ft, out, want))
    return probs, tab


def _feature_default_false(fn):
    """every .get(<feature>, <default>) lookup on a permissions mapping has the constant False as default"""
    bad = []
    n = 0
    for x in fn.walk():
        if is_call(x, 'get') and isinstance(x.func, ast.Attribute) and len(x.args) >= 1:
            key = x.args[0]
            par = getattr(x, '_parent', None)
            is_feature = isinstance(par, ast.Compare) and any(isinstance(o, ast.Is) for o in par.ops) or \
                (isinstance(par, (ast.If,)) and par.test is x) or isinstance(par, ast.BoolOp) or isinstance(par, ast.UnaryOp) or \
                (isinstance(par, ast.comprehension) and any(i is x for i in par.ifs))
            if not is_feature:
                continue
            n += 1
            d = x.args[1] if len(x.args) > 1 else ast.Constant(value=None)
            if const_value(d, 'nonconst') not in (False, None):
                bad.append(unparse(x))
    return n, bad


@rule('C10.c', floor=12)
def c10c(ctx):
    for qn in (TILE + ':TileServer.authorize_tile_layer', KML + ':KMLServer.authorize_tile_layer', WMTS + ':WMTSServer.authorize_tile_layer'):
        fn = ctx.fn(qn)
        probs, tab = _auth_table(ctx, fn, None)
        ctx.check(not probs, fn.short + ':deny-by-default',
                  'permit <=> no callback or full or (partial and the feature entry is True); unauthenticated -> 401; all else -> 403 (%d rows)' % len(tab.rows),
                  fn, fail='authorization decision table deviates: %s' % '; '.join(probs[:3]))
        n, bad = _feature_default_false(fn)
        ctx.check(n >= 1 and not bad, fn.short + ':feature-default-false', 'the default of the feature lookup is False (a layer listed without the feature is denied)', fn,
                  fail='feature lookup with a permitting default: %s' % bad)
        # the last statement is the raise 403 (fall-through denies)
        last = fn.node.body[-1]
        while isinstance(last, ast.If) and not last.orelse:
            last = last.body[-1]
        ok = isinstance(last, ast.Raise) and '403' in unparse(last.exc)
        ctx.check(ok, fn.short + ':fallthrough-denies', 'the fall-through statement of the callback branch is raise 403', fn)
    # WMS
    fn = ctx.fn(WMS + ':WMSServer.authorized_layers')
    g = fn.cfg
    rets = g.find_stmts(lambda s: isinstance(s, ast.Return))
    ok = True
    n_all = 0
    for r in rets:
        v = g.stmt[r].value
        if contains(v, lambda x: isinstance(x, ast.Name) and x.id == 'PERMIT_ALL_LAYERS'):
            n_all += 1
            full = g.guarded(r, lambda at: at.op == '==' and "'full'" in at.text, True)
            nocb = g.guarded(r, lambda at: at.op == 'in' and 'mapproxy.authorize' in at.text, False)
            ok = ok and (full or nocb)
    ctx.check(ok and n_all == 2, 'WMSServer.authorized_layers:permit-all-only-full', 'PERMIT_ALL_LAYERS is returned only without callback or for "full"', fn,
              fail='PERMIT_ALL_LAYERS can be returned for an answer other than "full"')
    n, bad = _feature_default_false(fn)
    ctx.check(n >= 1 and not bad, 'WMSServer.authorized_layers:feature-default-false', 'permissions.get(feature, False) is True: default False', fn,
              fail='feature lookup with a permitting default: %s' % bad)
    # the authorized map is the first element of the non-PERMIT_ALL result, whatever the local is called
    amap = {unparse(g.stmt[r].value.elts[0]) for r in rets if isinstance(g.stmt[r].value, ast.Tuple) and len(g.stmt[r].value.elts) == 2 and
            isinstance(g.stmt[r].value.elts[0], ast.Name) and g.stmt[r].value.elts[0].id != 'PERMIT_ALL_LAYERS'}
    adds = g.find_stmts(lambda s: isinstance(s, ast.Assign) and isinstance(s.targets[0], ast.Subscript) and unparse(s.targets[0].value) in amap)
    ok = bool(adds) and len(amap) == 1 and all(g.guarded(a, lambda at: at.op == 'is' and 'True' in at.text and '.get(' in at.text, True) and
                            g.guarded(a, lambda at: at.op == '==' and "'partial'" in at.text, True) for a in adds)
    if not adds and len(amap) == 1:
        # the map built in one expression: {name: .. for name, permissions in .. if permissions.get(feature, False) is True}, under "partial"
        comps = g.find_stmts(lambda s: isinstance(s, ast.Assign) and unparse(s.targets[0]) in amap and isinstance(s.value, ast.DictComp))
        others = g.find_stmts(lambda s: isinstance(s, ast.Assign) and unparse(s.targets[0]) in amap and not isinstance(s.value, ast.DictComp) and
                              not (isinstance(s.value, ast.Dict) and not s.value.keys))
        ok = bool(comps) and not others and all(
            g.guarded(n, lambda at: at.op == '==' and "'partial'" in at.text, True) and
            any(at.op == 'is' and 'True' in at.text and '.get(' in at.text and p is True
                for t in g.stmt[n].value.generators[0].ifs for at, p in implied(t, True)) and len(g.stmt[n].value.generators) == 1
            for n in comps)
    ctx.check(ok, 'WMSServer.authorized_layers:only-permitted-listed', 'a layer enters the authorized map only for "partial" and feature is True', fn)
    un = g.find_stmts(lambda s: isinstance(s, ast.Raise) and '401' in unparse(s.exc))
    ok = bool(un) and all(g.guarded(u, lambda at: at.op == '==' and "'unauthenticated'" in at.text, True) for u in un)
    ctx.check(ok, 'WMSServer.authorized_layers:401', '"unauthenticated" raises 401', fn)
    fl = ctx.fn(WMS + ':WMSServer.filter_actual_layers')
    lp = [s for s in fl.walk() if isinstance(s, ast.For)]
    if not lp:
        raise Undecided('filter_actual_layers: loop not found')

    def cls2(node):
        if node is None or isinstance(node, ast.Continue):       # (the end of this layer's iteration, either way)
            return 'keep'
        if isinstance(node, ast.Raise):
            return 'raise403' if '403' in unparse(node.exc) else 'raise'
        return type(node).__name__

    def ev(st):
        if isinstance(st, ast.Delete):
            return 'delete'
        if isinstance(st, ast.Assign) and contains(st.value, lambda x: is_call(x, 'LimitedLayer')):
            return 'limit'
        return None
    tab = ctx.rows(table(lp[0].body, cls2, event_of=ev))
    a_in = [a for a in tab.atoms if 'in authorized_layers' in a]
    a_rq = [a for a in tab.atoms if 'requested' in a]
    a_lim = [a for a in tab.atoms if 'None' in a]
    ok = len(a_in) == len(a_rq) == len(a_lim) == 1
    bad = []
    if ok:
        for asg, out, events in tab.assignments():
            if not asg[a_in[0]]:
                want = ('raise403', ()) if asg[a_rq[0]] else ('keep', ('delete',))
            else:
                want = ('keep', ()) if asg[a_lim[0]] else ('keep', ('limit',))
            if (out, events) != want:
                bad.append((asg, out, events))
    ctx.check(ok and not bad, 'WMSServer.filter_actual_layers:table',
              'a layer outside the authorized map is refused (403, explicitly requested) or removed; a limited one is wrapped in LimitedLayer', fl,
              fail='filter_actual_layers keeps an unauthorized layer or drops a limit: %s' % bad[:2])
    gf = fl.cfg
    ok = gf.guarded(gf.node_of[id(lp[0])], lambda at: at.op == 'is' and 'PERMIT_ALL_LAYERS' in at.text, False)
    ctx.check(ok, 'WMSServer.filter_actual_layers:skipped-only-for-permit-all', 'filtering is skipped only for PERMIT_ALL_LAYERS', fl)
    for qn, svc in ((TILE + ':TileServer.authorized_tile_layers', 'tms'), (WMTS + ':WMTSServer.authorized_tile_layers', 'wmts')):
        fn = ctx.fn(qn)
        g = fn.cfg
        # every value the function returns is either "all layers" (checked below) or built from layers that passed the tile
        # permission test: appended / inserted on an edge where the permission holds, or selected by a comprehension filter
        cfm = Canon(fn)
        perm = lambda at: '.get(' in at.text and "'tile'" in at.text
        ok = True
        nsel = 0
        for r in g.find_stmts(lambda s: isinstance(s, ast.Return) and s.value is not None):
            v = cfm.expr(g.stmt[r].value)
            if contains(v, lambda x: unparse(x) in ('self.layers', 'self.layers.values()')) and not isinstance(v, (ast.ListComp, ast.DictComp, ast.GeneratorExp)) and \
                    not any(isinstance(x, (ast.ListComp, ast.DictComp, ast.GeneratorExp)) for x in ast.walk(v)):
                continue        # all layers
            comps = [x for x in ast.walk(v) if isinstance(x, (ast.ListComp, ast.DictComp, ast.GeneratorExp))]
            if comps:
                nsel += 1
                ok = ok and all(any(perm(at) and p is True for t in c.generators[0].ifs for at, p in implied(t, True)) for c in comps[:1])
            elif isinstance(g.stmt[r].value, ast.Name):
                acc = g.stmt[r].value.id
                adds = g.find(lambda x: is_call(x, acc + '.append')) + [(n, g.stmt[n]) for n in g.find_stmts(
                    lambda s: isinstance(s, ast.Assign) and isinstance(s.targets[0], ast.Subscript) and unparse(s.targets[0].value) == acc)]
                nsel += 1
                ok = ok and bool(adds) and all(g.guarded(n, perm, True) for n, x in adds)
        ok = ok and nsel >= 1
        ctx.check(ok, fn.short + ':only-permitted-listed', 'a layer is listed only if its tile permission is set', fn)
        n, bad = _feature_default_false(fn)
        ctx.check(n >= 1 and not bad, fn.short + ':feature-default-false', 'default of the tile permission lookup is False', fn,
                  fail='feature lookup with a permitting default: %s' % bad)
        full = [r for r in g.find_stmts(lambda s: isinstance(s, ast.Return) and s.value is not None)
                if contains(cfm.expr(g.stmt[r].value), lambda x: unparse(x) in ('self.layers', 'self.layers.values()')) and
                not any(isinstance(x, (ast.ListComp, ast.DictComp, ast.GeneratorExp)) for x in ast.walk(cfm.expr(g.stmt[r].value)))]
        ok = bool(full) and all(g.guarded(r, lambda at: "'full'" in at.text, True) or g.guarded(r, lambda at: 'mapproxy.authorize' in at.text, False) for r in full)
        ctx.check(ok, fn.short + ':all-only-full', 'all layers are listed only without callback or for "full"', fn)
    fn = ctx.fn(WMS + ':WMSServer.authorized_capability_layers')
    g = fn.cfg
    root = g.find_stmts(lambda s: isinstance(s, ast.Return) and same(s.value, 'self.root_layer'))
    ok = bool(root) and all(g.guarded(r, lambda at: "'full'" in at.text, True) or g.guarded(r, lambda at: 'mapproxy.authorize' in at.text, False) for r in root)
    ctx.check(ok, 'WMSServer.authorized_capability_layers:unfiltered-only-full', 'the unfiltered layer tree is returned only without callback or for "full"', fn)
    # with a callback the function never falls off its end and never returns for an answer other than full / partial
    tabc = ctx.rows(table(fn.node.body, ret_kind))
    a_cb = [a for a in tabc.atoms if 'mapproxy.authorize' in a and tabc.atom_objs[a].op == 'in']
    a_ok = [a for a in tabc.atoms if tabc.atom_objs[a].op == '==' and ("'full'" in a or "'partial'" in a)]
    ok = len(a_cb) == 1 and len(a_ok) >= 1
    if ok:
        for asg, out, _ in tabc.assignments():
            if not asg[a_cb[0]]:
                continue
            if not any(asg[a] for a in a_ok):
                ok = ok and out.startswith('raise') and ('403' in out or '401' in out)
            ok = ok and out != 'fall'
    ctx.check(ok, 'WMSServer.authorized_capability_layers:fallthrough-denies', 'any other answer raises 403', fn)
    fn = ctx.fn(DEMO + ':DemoServer.authorized_demo')
    g = fn.cfg
    trues = g.find_stmts(lambda s: isinstance(s, ast.Return) and const_value(s.value) is True)
    ok = bool(trues) and all(g.guarded(r, lambda at: "'full'" in at.text, True) or g.guarded(r, lambda at: 'mapproxy.authorize' in at.text, False) for r in trues)
    ctx.check(ok, 'DemoServer.authorized_demo:true-only-full', 'the demo is authorized only without callback or for "full"', fn)
    h = ctx.fn(DEMO + ':DemoServer.handle')
    g = h.cfg
    rend = g.find(lambda x: is_call(x, 'self._render_wms_template', 'self._render_tms_template', 'self._render_wmts_template',
                                    'self._render_template', 'self._render_capabilities_template'))
    ok = bool(rend) and all(g.guarded(n, lambda at: at.op is None and same(at.expr, 'authorized'), True) for n, x in rend)
    ctx.check(ok, 'DemoServer.handle:answer-used', 'templates are rendered only when authorized_demo() returned True', h)


@rule('C10.d', floor=7)
def c10d(ctx):
    fn = ctx.fn('mapproxy/util/coverage.py:load_limited_to')
    rets = returns_of(fn.node)
    ok = bool(rets) and all(isinstance(r.value, ast.Call) and const_value(keyword(r.value, 'clip', 2)) is True for r in rets)
    ctx.check(ok, 'load_limited_to:clip', 'load_limited_to returns a coverage constructed with clip=True on every path', fn,
              fail='load_limited_to can return a coverage that does not clip: a limited layer is rendered in full')
    for m in ('_render_raise_exceptions', '_render_capture_source_errors'):
        f = ctx.fn('%s:LayerRenderer.%s' % (WMS, m))
        adds = [x for x in f.walk() if is_call(x, 'layer_merger.add') and len(x.args) + len(x.keywords) >= 2]
        ok = bool(adds) and all(unparse(keyword(x, 'coverage', 1)) == 'layer.coverage' for x in adds)
        ctx.check(ok, 'LayerRenderer.%s:layer-coverage-to-merger' % m, 'each layer image is added to the merger together with layer.coverage', f,
                  fail='the per-layer limit (layer.coverage) does not reach the merger in %s' % m)
    add = ctx.fn('mapproxy/image/merge.py:LayerMerger.add')
    ok = any(is_call(x, 'self.layers.append') and isinstance(x.args[0], ast.Tuple) and [unparse(e) for e in x.args[0].elts] == ['img', 'coverage'] for x in add.walk())
    ctx.check(ok, 'LayerMerger.add:stores-coverage', 'add() stores (img, coverage) pairs', add)
    mg = ctx.fn('mapproxy/image/merge.py:LayerMerger.merge#2') if 'mapproxy/image/merge.py:LayerMerger.merge#2' in ctx.repo.funcs else None
    cands = [f for f in ctx.repo.fns_in('mapproxy/image/merge.py:LayerMerger.merge') if any(is_call(x, 'mask_image') for x in f.walk())]
    if not cands:
        raise Undecided('LayerMerger.merge with mask_image not found')
    mg = cands[0]
    ctx.stats['functions'].add(mg.qn)
    g = mg.cfg
    fast = g.find_stmts(lambda s: isinstance(s, ast.Return) and same(s.value, 'layer_img'))
    if not fast:
        ctx.ok('LayerMerger.merge:no-fast-path', 'no single-layer fast path', mg)
    for r in fast:
        from .c14 import fast_path_table
        st, tab = fast_path_table(ctx, mg, g, r)
        a_cov = [a for a in tab.atoms if a == 'coverage']
        a_lc = [a for a in tab.atoms if a == 'layer_coverage']
        a_clip = [a for a in tab.atoms if a.endswith('.clip')]
        ok = len(a_cov) == 1 and len(a_lc) == 1 and len(a_clip) == 1
        if ok:
            for asg, v, _ in tab.assignments():
                if v == 'fast' and (asg[a_cov[0]] or (asg[a_lc[0]] and asg[a_clip[0]])):
                    ok = False
        ctx.check(ok, 'LayerMerger.merge:fast-path-off-with-coverage',
                  'the single-layer fast path is taken only without global coverage and without a clipping layer coverage', mg, st,
                  fail='the single-layer fast path returns the unclipped image although a global or per-layer clip coverage is present')
    masks = g.find(lambda x: is_call(x, 'mask_image'))
    per_layer = [(n, x) for n, x in masks if len(x.args) >= 4 and same(x.args[3], 'layer_coverage')]
    glob = [(n, x) for n, x in masks if len(x.args) >= 4 and same(x.args[3], 'coverage')]
    ok = len(per_layer) == 1 and g.guarded(per_layer[0][0], lambda at: at.op is None and same(at.expr, 'layer_coverage'), True) and \
        g.guarded(per_layer[0][0], lambda at: at.op is None and unparse(at.expr).endswith('.clip'), True) and \
        enclosing(per_layer[0][1], ast.For) is not None
    ctx.check(ok, 'LayerMerger.merge:per-layer-mask', 'inside the layer loop each image is masked with its own clipping coverage', mg,
              fail='the per-layer mask_image(img, bbox, bbox_srs, layer_coverage) call under `layer_coverage and layer_coverage.clip` is missing')
    lastret = [r for r in g.find_stmts(lambda s: isinstance(s, ast.Return)) if is_call(g.stmt[r].value, 'ImageSource')]
    ok = len(glob) == 1 and bool(lastret)
    if ok:
        gn = glob[0][0]
        # on the `coverage` true edge the mask lies on every path to the final return
        edges = g.guard_edges(lambda at: at.op is None and same(at.expr, 'coverage'), True)
        iff = enclosing(glob[0][1], ast.If)
        ok = iff is not None and same(iff.test, 'coverage') and not inside(iff, enclosing(per_layer[0][1], ast.For) if per_layer else iff) and \
            all(g.dominates(g.node_of[id(iff)], r) for r in lastret)
        res = [s for s in iff.body if isinstance(s, ast.Assign) and unparse(s.targets[0]) == 'result'] if iff is not None else []
        ok = ok and bool(res)
    ctx.check(ok, 'LayerMerger.merge:global-mask', 'the global `if coverage:` mask lies on every path to the composed result', mg,
              fail='the composed image can be returned without applying the global coverage mask')


@rule('C10.e', floor=6)
def c10e(ctx):
    for m in ('render', 'get_info'):
        fn = ctx.fn('%s:TileLayer.%s' % (TILE, m))
        g = fn.cfg
        defs = Defs(fn.node)
        cov_if = [s for s in fn.walk() if isinstance(s, ast.If) and same(s.test, 'coverage')]
        if not cov_if:
            ctx.bad('TileLayer.%s:coverage-branch' % m, 'no `if coverage:` branch', fn)
            continue

        def cls(node):
            if node is None:
                return 'go'
            if isinstance(node, ast.Return):
                return 'empty' if is_call(node.value, 'self.empty_response') else 'return'
            return type(node).__name__

        # the mask flag: the plain name under whose truth the mask is applied (whatever it is called)
        masks = g.find(lambda x: is_call(x, 'mask_image_source_from_coverage'))
        flags = sorted({unparse(at.expr) for mn, _ in masks for at, pol in g.guards_of(mn) if pol is True and at.op is None and isinstance(at.expr, ast.Name)
                        and at.expr.id != 'coverage' and any(isinstance(v, ast.Constant) and isinstance(v.value, bool) for v, sel in defs.of(at.expr.id))})
        FLAG = flags[0] if len(flags) == 1 else 'coverage_intersects'

        def ev(st):
            if isinstance(st, ast.Assign) and unparse(st.targets[0]) == FLAG:
                return 'flag=%s' % unparse(st.value)
            return None
        tab = ctx.rows(table(cov_if[0].body, cls, event_of=ev))
        a_c = [a for a in tab.atoms if '.contains(' in a]
        a_i = [a for a in tab.atoms if '.intersects(' in a]
        ok = len(a_c) == 1 and len(a_i) == 1
        bad = []
        if ok:
            for asg, out, events in tab.assignments():
                # the flag as it stands when the branch is left (it starts as False)
                flag = events[-1] if events else 'flag=False'
                if asg[a_c[0]]:
                    want = ('go', 'flag=False')
                elif asg[a_i[0]]:
                    want = ('go', 'flag=True')
                else:
                    want = ('empty', flag)          # nothing is served: the flag is not read any more
                if (out, flag) != want:
                    bad.append((asg, out, events))
        ctx.check(ok and not bad, 'TileLayer.%s:limit-table' % m,
                  'contained -> render; only intersecting -> mask flag; disjoint -> empty response', fn,
                  fail='the tile/limit decision deviates: %s' % bad[:2])
        loads = g.find(lambda x: is_call(x, 'load_tile_coord'))
        ok = bool(loads) and all(g.dominates(g.node_of[id(cov_if[0])], n) for n, x in loads)
        ctx.check(ok, 'TileLayer.%s:limit-before-load' % m, 'the limit is evaluated before the tile is loaded', fn)
        flag_rets = [r for r in g.find_stmts(lambda s: isinstance(s, ast.Return) and is_call(s.value, 'TileResponse'))
                     if g.guarded(r, lambda at: at.op is None and same(at.expr, FLAG), True)]
        # (the bbox handed to the mask: a local, judged below by what it can hold)
        BBOX = unparse(masks[0][1].args[1]) if masks and len(masks[0][1].args) > 1 and isinstance(masks[0][1].args[1], ast.Name) else 'tile_bbox'
        ok = len(flag_rets) == 1 and len(masks) == 1 and g.dominates(masks[0][0], flag_rets[0]) and \
            same_args(masks[0][1].args[:4], ['tile.source', BBOX, 'self.grid.srs', 'coverage'])
        ctx.check(ok, 'TileLayer.%s:mask-on-flag' % m, 'on the flag edge the tile is masked with the limit and the same tile_bbox before it is returned', fn,
                  fail='an only-intersecting tile is returned without mask_image_source_from_coverage(tile.source, tile_bbox, srs, coverage, ...)')
        plain = [r for r in g.find_stmts(lambda s: isinstance(s, ast.Return) and is_call(s.value, 'TileResponse')) if r not in flag_rets]
        ok = bool(plain) and all(g.guarded(r, lambda at: at.op is None and same(at.expr, FLAG), False) for r in plain)
        ctx.check(ok, 'TileLayer.%s:unmasked-only-without-flag' % m, 'the unmasked response is returned only when the flag is not set', fn)
        tb = [v for v, sel in defs.of(BBOX)]
        # the rectangle the limit was compared with is the one the mask is placed with
        cmp_args = [x.args[0] for x in fn.walk() if isinstance(x, ast.Call) and isinstance(x.func, ast.Attribute) and x.func.attr in ('contains', 'intersects') and
                    same(x.func.value, 'coverage') and x.args]
        tb += [v for a in cmp_args if isinstance(a, ast.Name) and a.id != BBOX for v, sel in defs.of(a.id)]

        def served_bbox(v):
            for depth in (0, 1, 2, 3):       # the value itself, or the local it was first held in
                c = fn.canon.expr(v, depth=depth) if depth else v
                # (the full tile rectangle: the clipped one of limit=True is not the extent of the tile image, C01.j)
                if is_call(c, 'self.grid.tile_bbox') and len(c.args) == 1 and not c.keywords and unparse(c.args[0]) == 'tile_coord':
                    return True
            # a placeholder (`tile_bbox = None` when there is no limit) that cannot reach the mask
            st = enclosing(v, ast.Assign)
            n = g.node_of.get(id(st)) if st is not None else None
            return isinstance(v, ast.Constant) and n is not None and bool(masks) and all(mn not in g.reachable_ps(n) for mn, _ in masks)
        ok = all(served_bbox(v) for v in tb) and bool(tb)
        ctx.check(ok, 'TileLayer.%s:bbox-of-served-tile' % m, 'the limit is compared with the bbox of the internal coordinate that is served', fn)


@rule('C10.f', floor=3)
def c10f(ctx):
    fn = ctx.fn('mapproxy/layer.py:LimitedLayer.get_info')
    g = fn.cfg
    calls = g.find(lambda x: is_call(x, 'self._layer.get_info'))
    ok = bool(calls)
    for n, x in calls:
        edges = []
        for s, d, test, pol in g.branch_edges():
            if any(at.mentions(lambda y: is_call(y, 'self.coverage.contains') and 'coord' in unparse(y.args[0])) and p is False for at, p in implied(test, pol)):
                edges.append((s, d))
        ok = ok and bool(edges) and all(n not in g.reachable(d) for s, d in edges)
    ctx.check(ok, 'LimitedLayer.get_info:gated', 'the wrapped layer is not queried when the limit does not contain the query point', fn,
              fail='LimitedLayer.get_info forwards the query although the point lies outside the limit')
    cl = ctx.fn('mapproxy/layer.py:LimitedLayer.combined_layer')
    g = cl.cfg
    comb = g.find(lambda x: is_call(x, 'self._layer.combined_layer'))
    ok = bool(comb) and all(g.guarded(n, lambda at: at.op == '==' and 'self.coverage' in at.text and 'other.coverage' in at.text, True) for n, x in comb)
    ctx.check(ok, 'LimitedLayer.combined_layer:equal-coverages-only', 'limited layers are combined only when their limits are equal', cl,
              fail='limited layers with different limits can be combined into one upstream request (one of the limits is lost)')
    rets = [r for r in returns_of(cl.node) if not (isinstance(r.value, ast.Constant) and r.value.value is None)]
    ok = bool(rets) and all(is_call(r.value, 'LimitedLayer') and same(r.value.args[1], 'self.coverage') for r in rets)
    ctx.check(ok, 'LimitedLayer.combined_layer:rewrapped', 'the combined layer is wrapped in LimitedLayer with the same limit', cl)


@rule('C10.g', floor=5)
def c10g(ctx):
    """a limit supplied by the callback is always loaded and returned: load_limited_to(x) on the truthy edge of x, the
    no-limit result only on its falsy edge"""
    sites = [(WMS + ':WMSServer.authorized_layers', 'limited_to', 'coverage'),
             (WMS + ':WMSServer.authorized_capability_layers', 'limited_to', 'coverage'),
             (TILE + ':TileServer.authorize_tile_layer', 'limited_to', None),
             (KML + ':KMLServer.authorize_tile_layer', 'limited_to', None),
             (WMTS + ':WMTSServer.authorize_tile_layer', 'limited_to', None)]
    for qn, var, target in sites:
        fn = ctx.fn(qn)
        g = fn.cfg
        anyload = [x for x in fn.walk() if is_call(x, 'load_limited_to') and x.args and isinstance(x.args[0], ast.Name)]
        if anyload:
            var = anyload[0].args[0].id        # the local that holds the callback's limit (whatever it is called)
        loads = g.find(lambda x: is_call(x, 'load_limited_to') and x.args and unparse(x.args[0]) == var)
        truthy = lambda at: at.op is None and unparse(at.expr) == var
        ok = bool(loads) and all(g.guarded(n, truthy, True) for n, x in loads)
        # the "no limit" alternative (coverage = None / return None) only on the falsy edge
        if target:
            nones = g.find_stmts(lambda s: isinstance(s, ast.Assign) and unparse(s.targets[0]) == target and const_value(s.value, 1) is None)
        else:
            # the returns of "no limit" that lie behind an assignment of the limit variable (`return` and `return None` alike;
            # the permits decided before the limit is looked at -- no callback, 'full' -- are not meant)
            vdefs = g.find_stmts(lambda s: isinstance(s, ast.Assign) and any(isinstance(t, ast.Name) and t.id == var for t in s.targets))
            nones = [r for r in g.find_stmts(lambda s: isinstance(s, ast.Return) and const_value(s.value, 1) is None)
                     if any(g.reaches_avoiding(d, r) for d in vdefs)]
        ok = ok and all(g.guarded(n, truthy, False) for n in nones) and bool(nones)
        ctx.check(ok, '%s:limit-loaded-when-given' % fn.short, 'load_limited_to(%s) runs iff the callback supplied a limit; "no limit" only when it did not' % var, fn,
                  fail='a limit supplied by the authorization callback is dropped (or invented): the response is not clipped to the permitted area')
    # the per-layer limit overrides / falls back to the global one in the tile services
    for qn in (TILE + ':TileServer.authorize_tile_layer', KML + ':KMLServer.authorize_tile_layer', WMTS + ':WMTSServer.authorize_tile_layer'):
        fn = ctx.fn(qn)
        defs = Defs(fn.node)
        anyload = [x for x in fn.walk() if is_call(x, 'load_limited_to') and x.args and isinstance(x.args[0], ast.Name)]
        lv = anyload[0].args[0].id if anyload else 'limited_to'
        vals = [unparse(v) for v, sel in defs.of(lv)]
        ok = any(".get('limited_to')" in v and 'layers' in v for v in vals) and any(v.replace(' ', '') == "result.get('limited_to')" for v in vals)
        g = fn.cfg
        fb = g.find_stmts(lambda s: isinstance(s, ast.Assign) and unparse(s.targets[0]) == lv and unparse(s.value).replace(' ', '') == "result.get('limited_to')")
        ok = ok and all(g.guarded(n, lambda at: at.op is None and unparse(at.expr) == lv, False) for n in fb)
        ctx.check(ok, '%s:layer-limit-then-global' % fn.short, 'the layer\'s own limit is used, the global limit only when the layer has none', fn)


def _is_last_test(g, s, var):
    return True


@rule('C10.h', floor=2)
def c10h(ctx):
    """the clip mask is positioned with the geometry that was rendered: size and bbox given to the merger belong to the same
    query object that was handed to the renderer"""
    fn = ctx.fn(WMS + ':WMSServer.map')
    mg = [x for x in fn.walk() if is_call(x, 'merger.merge')]
    rn = [x for x in fn.walk() if is_call(x, 'LayerRenderer')]
    ok = bool(mg) and bool(rn)
    if ok:
        q = unparse(rn[0].args[1])
        size, bbox = keyword(mg[0], 'size'), keyword(mg[0], 'bbox')
        ok = size is not None and bbox is not None and unparse(size) == q + '.size' and unparse(bbox) == q + '.bbox'
    ctx.check(ok, 'WMSServer.map:mask-geometry-of-rendered-query', 'merger.merge(size=q.size, bbox=q.bbox) with q the query given to the renderer', fn,
              fail='the merger (and its clip mask) is given a size/bbox that does not belong to the rendered (extent-limited) query: the '
                   'authorization mask is shifted against the image')
    srs = keyword(mg[0], 'bbox_srs') if mg else None
    ok = srs is not None and any(same(srs, t) for t in ('map_request.params.srs', 'query.srs', 'query.srs.srs_code'))
    ctx.check(ok, 'WMSServer.map:mask-srs', 'the mask SRS is the request/query SRS', fn)


@rule('C10.i', floor=4)
def c10i(ctx):
    """a limited_to geometry is compared in its own SRS: whatever is tested against a coverage (bbox, point, geometry) is first
    brought into the coverage SRS -- on every path through GeomCoverage._geom_in_coverage_srs with srs != self.srs a transform of
    the geometry is executed; BBOXCoverage does the same for its bbox tests"""
    from ..decide import table as _table
    fn = ctx.fn('mapproxy/util/coverage.py:GeomCoverage._geom_in_coverage_srs')
    gp = fn.params[1]

    fdefs = Defs(fn.node)
    TR = ('transform_geometry', 'transform_to', 'transform_bbox_to')

    def is_transform(x):
        if is_call(x, *TR):
            return True
        # the method picked into a local first (`t = srs.transform_to if .. else srs.transform_bbox_to; t(self.srs, geom)`)
        if isinstance(x, ast.Call) and isinstance(x.func, ast.Name):
            ds = fdefs.of(x.func.id)
            return bool(ds) and all(sel is None and (isinstance(v, ast.Attribute) and v.attr in TR or isinstance(v, ast.Name) and v.id in TR)
                                    for v, sel in ds)
        return False

    def ev(st):
        if isinstance(st, (ast.Assign, ast.Return)) and contains(st, lambda x: is_transform(x) and any(unparse(a) == gp for a in x.args)):
            return 'transform'
        return None
    tab = ctx.rows(_table(fn.node.body, ret_kind, event_of=ev))
    same = [a for a in tab.atoms if tab.atom_objs[a].op == '==' and {unparse(tab.atom_objs[a].left), unparse(tab.atom_objs[a].right)} == {'self.srs', fn.params[2]}]
    bad = []
    if len(same) == 1:
        for asg, out, events in tab.assignments():
            if not asg[same[0]] and 'transform' not in events and not out.startswith('raise'):
                bad.append(asg)
    ctx.check(len(same) == 1 and not bad, 'GeomCoverage._geom_in_coverage_srs:always-transformed',
              'for srs != self.srs every kind of geometry (shapely geometry, point, bbox) is transformed into the coverage SRS (%d rows)' % len(tab.rows), fn,
              fail='a geometry in another SRS is compared with the coverage without being transformed: %s' % (bad[:1],))
    for m in ('intersects', 'contains', 'intersection'):
        f = ctx.fn('mapproxy/util/coverage.py:GeomCoverage.' + m)
        defs = Defs(f.node)
        uses = [x for x in f.walk() if isinstance(x, ast.Call) and isinstance(x.func, ast.Attribute) and x.func.attr in ('intersects', 'contains', 'intersection')
                and ('geom' in unparse(x.func.value))]
        ok = bool(uses) and all(x.args and depends(x.args[0], lambda y: is_call(y, 'self._geom_in_coverage_srs'), defs) for x in uses)
        ctx.check(ok, 'GeomCoverage.%s:argument-in-coverage-srs' % m, 'the geometry tested against the coverage went through _geom_in_coverage_srs', f)


@rule('C10.j', floor=2)
def c10j(ctx):
    """what is clipped away is really gone: mask_image overwrites the pixels outside the permitted area with one constant, fully
    transparent colour (paste under the mask).  Merely lowering their alpha leaves the colours in the image; every later step that
    drops or ignores the alpha channel (conversion to RGB for a JPEG / opaque PNG answer, blending a layer with an opacity) would
    show the content of the forbidden area again"""
    fn = ctx.fn('mapproxy/image/mask.py:mask_image')
    defs = Defs(fn.node)
    pastes = [x for x in fn.walk() if isinstance(x, ast.Call) and isinstance(x.func, ast.Attribute) and x.func.attr == 'paste' and len(x.args) + len(x.keywords) >= 3 and x.args]
    ok = False
    for x in pastes:
        col = resolve_const_tuple(x.args[0], defs)
        m = keyword(x, 'mask', 2)        # PIL: Image.paste(im, box=None, mask=None)
        if col is not None and len(col) == 4 and col[3] == 0 and m is not None and is_call(fn.canon.expr(m), 'image_mask_from_geom'):
            ok = True
    ctx.check(ok, 'mask_image:content-overwritten', 'the masked pixels are overwritten with a constant colour of alpha 0 (paste(<const RGBA>, .., mask))', fn,
              fail='mask_image does not overwrite the clipped pixels (it only changes their alpha / leaves them): the colours of the forbidden '
                   'area survive in the image and reappear where the alpha channel is dropped')
    rets = returns_of(fn.node)
    ok = bool(rets) and all(r.value is not None for r in rets)
    ctx.check(ok, 'mask_image:returns-image', 'mask_image returns the masked image', fn)


def resolve_const_tuple(e, defs):
    from ..util import resolve1
    e = resolve1(e, defs)
    if isinstance(e, ast.Tuple) and all(isinstance(x, ast.Constant) for x in e.elts):
        return tuple(x.value for x in e.elts)
    return None


@rule('C10.k', floor=2)
def c10k(ctx):
    """shared rule, re-evaluated for this property: the geometry a request is limited to is the one the callback returned, also after
    it was transformed into the SRS of the image that is clipped -- a re-projected polygon keeps its holes (C17.i); content inside a
    hole of the permitted area must stay invisible"""
    from ..engine import run_property
    sub = run_property(ctx.repo, 'C17', ctx.tier, only={'C17.i'})
    for er in sub.errors:
        raise Undecided('shared rule %s: %s' % er)
    for o in sub.obs:
        (ctx.ok if o.status == 'ok' else ctx.bad)('%s:%s' % (o.rule, o.construct), o.msg, o.where)
    ctx.stats['functions'] |= sub.stats['functions']


@rule('C10.l', floor=2)
def c10l(ctx):
    """pixels well inside the permitted area keep their content: after the forbidden part was overwritten (mask_image, C10.j) the tile is
    put on a fresh canvas.  On a transparent (RGBA) canvas that must be alpha compositing; `canvas.paste(img, pos, img)` -- the image as
    its own mask -- weights every pixel with its alpha a second time and mixes its colour with the canvas: semi-transparent content
    inside the permitted area is changed.  paste-with-itself is only left for canvases without alpha (the image is flattened onto the
    background colour there, which is the composition)"""
    fn = ctx.fn('mapproxy/image/mask.py:mask_image_source_from_coverage')
    g = fn.cfg
    self_masked = [(n, x) for n, x in g.find(lambda x: isinstance(x, ast.Call) and isinstance(x.func, ast.Attribute) and x.func.attr == 'paste' and x.args)
                   if keyword(x, 'mask', 2) is not None and unparse(keyword(x, 'mask', 2)) == unparse(x.args[0])]
    comps = g.find(lambda x: is_call(x, 'Image.alpha_composite'))
    rgba = lambda at: at.op == '==' and '.mode' in at.text and "'RGBA'" in at.text
    capable = lambda at: at.op is None and at.mentions(lambda y: is_call(y, 'hasattr'))

    def only_without_alpha(n, x):
        """not on an RGBA canvas -- or only where `canvas is RGBA and <the library can composite>` is false: every way to the
        paste takes an edge on which one of the two is false"""
        return g.guarded(n, rgba, False) or g.guarded_any(n, [(rgba, False), (capable, False)])
    ok = all(only_without_alpha(n, x) for n, x in self_masked) and bool(comps) and all(g.guarded(n, rgba, True) for n, x in comps)
    ctx.check(ok, 'mask_image_source_from_coverage:composited-on-transparent-canvas',
              'on an RGBA canvas the clipped image is alpha-composited; paste-with-itself only on canvases without alpha', fn,
              fail='the clipped tile is pasted onto a transparent canvas with itself as mask: semi-transparent pixels inside the permitted area are altered')
    res = [x for x in fn.walk() if is_call(x, 'ImageSource')]
    ctx.check(bool(res) and all(same(x.args[0], 'result') for x in res), 'mask_image_source_from_coverage:returns-canvas', 'the composed canvas is what is returned', fn)


@rule('C10.m', floor=2)
def c10m(ctx):
    """the limit that is enforced is the limit that was given: the geometry of a `limited_to` answer becomes the clip geometry as it
    is -- the polygon, the multi polygon of the parsed polygons, or the rectangle of a bbox.  It is not simplified, buffered or replaced
    by a hull on the way (a simplified outline lets pixels outside the permitted area through, or cuts permitted ones)"""
    fn = ctx.fn('mapproxy/util/coverage.py:load_limited_to')
    LOSSY = ('simplify', 'buffer', 'convex_hull', 'envelope', 'minimum_rotated_rectangle', 'simplify_geom', 'unary_union', 'cascaded_union')
    bad = []
    for x in fn.walk():
        if isinstance(x, ast.Call):
            nm = simple_name(x) or ''
            if nm in LOSSY:
                bad.append(nm + '()')
            for k in x.keywords:
                if k.arg == 'simplify' and const_value(k.value, 0) is not False:
                    bad.append('%s(simplify=%s)' % (nm, unparse(k.value)))
            if nm == 'build_multipolygon' and len(x.args) > 1 and const_value(x.args[1], 0) is not False:
                bad.append('build_multipolygon(.., %s)' % unparse(x.args[1]))
        elif isinstance(x, ast.Attribute) and x.attr in ('convex_hull', 'envelope'):
            bad.append('.' + x.attr)
    ctx.check(not bad, 'load_limited_to:geometry-as-given', 'the limit geometry is not simplified / buffered / replaced by a hull', fn,
              fail='load_limited_to alters the geometry of the limit (%s): the clip edge is not where the authorisation put it' % ', '.join(sorted(set(bad))))
    rets = [r for r in returns_of(fn.node) if r.value is not None]
    ok = bool(rets) and all(is_call(r.value, 'GeomCoverage') and const_value(keyword(r.value, 'clip', 2), 0) is True for r in rets)
    ctx.check(ok, 'load_limited_to:clipping-coverage', 'the limit is a clipping GeomCoverage', fn)


@rule('C10.n', floor=2)
def c10n(ctx):
    """pixels well inside the permitted area keep their content, whatever the order of the polygons: the clip mask is painted polygon
    after polygon -- exterior visible, holes masked -- so a polygon lying in the hole of another one (an island in a lake) has to be
    painted *after* the polygon with the hole, or the hole wipes it out.  The parts are painted in an order that puts enclosing polygons
    first: sorted by the size of their extent, largest first"""
    fn = ctx.fn('mapproxy/image/mask.py:image_mask_from_geom')
    # where a polygon is painted: the call of the local painter, or (painter written out) the exterior drawn with draw.polygon
    painters = {d.name for d in fn.node.body if isinstance(d, ast.FunctionDef) and
                any(isinstance(x, ast.Attribute) and x.attr == 'exterior' for x in ast.walk(d))}
    draws = [x for x in fn.walk() if isinstance(x, ast.Call) and isinstance(x.func, ast.Name) and x.func.id in painters]
    if not draws:
        draws = [x for x in fn.walk() if isinstance(x, ast.Call) and isinstance(x.func, ast.Attribute) and x.func.attr == 'polygon' and
                 contains(x, lambda y: isinstance(y, ast.Attribute) and y.attr == 'exterior')]
    if not draws:
        raise Undecided('image_mask_from_geom: no polygon is painted')
    ok = True
    for x in draws:
        loop = enclosing(x, ast.For)
        it = fn.canon.expr(loop.iter) if loop is not None else None
        srt = it is not None and is_call(it, 'sorted') and keyword(it, 'key', 1) is not None and const_value(keyword(it, 'reverse', 2), 0) is True
        # (no second, unordered loop around it)
        outer = enclosing(loop, ast.For) if loop is not None else None
        ok = ok and srt and outer is None
    ctx.check(ok, 'image_mask_from_geom:enclosing-polygons-first', 'every polygon is painted from a list sorted by size, largest first', fn,
              fail='image_mask_from_geom paints the polygons in the order they come in: the hole of a polygon painted later wipes out an island '
                   'painted before it')
    holes = [x for x in fn.walk_all() if isinstance(x, ast.Attribute) and x.attr == 'interiors']
    ctx.check(bool(holes), 'image_mask_from_geom:holes-masked', 'the holes of a polygon are masked again after its exterior was painted', fn)
