"""C04 -- a tile is the same image however it was produced.
Pixel identity across production strategies is not decided.  Decided: one request
stores the whole meta tile -- the stored list is the complete, unsliced result of splitting
the fetched image along meta_tile.tile_patterns, split_meta_tiles produces one tile per
pattern entry and only skips entries without coordinate, the bulk creator stores every
cacheable tile it collected (C04.a); every branch of the strategy dispatch ends in a creator
function that is covered by the locked fetch-split-store rules (C04.b); the meta geometry
uses one level's quantities: _meta_size is the element-wise minimum of the configured meta
size and that level's grid size and is the only reader of meta_size, the split pattern is
placed with the tile size and buffer of the matching axis (C04.c); concurrent creators are
covered by the shared rules C08.a/b (C04.d).
Added in round 4: where the buffered meta tile rectangle is cut at the grid border the buffer of
that edge shrinks by exactly the distance cut off (C04.i).
Added in round 5: crop offsets are rounded to the nearest pixel (C04.j); the shared request template
of a client is never written (C04.k).
Added in round 6: meta tile bbox and pattern use the unclamped block (C04.l); pre-store filters run
before the store on every path (C04.m)."""
import ast

from ..engine import rule, run_property
from ..model import Undecided
from ..cfg import same, cexpr, dotted, call_name, is_call, simple_name, unparse, const_value, contains, enclosing
from ..flow import Canon, Defs, depends, scoped_defs
from ..axis import axis_reports
from ..util import resolve1, origin_path, keyword, returns_of, calls_in, inside, order_key

NOT_DECIDED = 'pixel identity across strategies, crop offsets at truncated buffers, size rounding, which strategy is chosen'

TILE = 'mapproxy/cache/tile.py'
G = 'mapproxy/grid.py'
COVERED_CREATORS = {'_create_single_tile', '_create_meta_tile', '_create_bulk_meta_tile'}


def _elementwise(e, defs, depth=4):
    """follow `x = [f(t) for t in y]` (no ifs) / plain names back to the underlying expression"""
    seen = 0
    while depth > 0:
        depth -= 1
        if isinstance(e, ast.Name):
            key, ds = scoped_defs(e, defs)
            ds = [d for d in ds if d[1] is None]
            if not ds:
                return e
            # flow-insensitive: every definition must lead to the same root; take each
            roots = [_elementwise(v, defs, depth) for v, sel in ds if not (isinstance(v, ast.Name) and v.id == e.id)]
            calls = [r for r in roots if isinstance(r, ast.Call)]
            return calls[0] if calls else (roots[0] if roots else e)
        if isinstance(e, ast.ListComp) and len(e.generators) == 1 and not e.generators[0].ifs:
            e = e.generators[0].iter
            continue
        return e
    return e


@rule('C04.a', floor=6)
def c04a(ctx):
    fn = ctx.fn(TILE + ':TileCreator._create_meta_tile')
    defs = Defs(fn.node)
    stores = [x for x in fn.walk() if is_call(x, 'self.cache.store_tiles')]
    if not stores:
        ctx.bad('TileCreator._create_meta_tile:store', 'no cache.store_tiles call', fn)
    for s in stores:
        arg = s.args[0]
        ok = isinstance(arg, ast.Name)      # no slice / filter at the call
        root = _elementwise(arg, defs)
        ok = ok and is_call(root, 'split_meta_tiles') and same(root.args[0], 'meta_tile_image') and same(root.args[1], 'meta_tile.tile_patterns')
        # no definition of the stored name slices or filters
        for v, sel in defs.of(arg.id) if isinstance(arg, ast.Name) else []:
            if isinstance(v, ast.Subscript) or (isinstance(v, ast.ListComp) and any(g.ifs for g in v.generators)) or is_call(v, 'filter'):
                ok = False
        ctx.check(ok, 'TileCreator._create_meta_tile:stores-whole-split', 'store_tiles receives the complete result of split_meta_tiles(meta_tile_image, meta_tile.tile_patterns, ...)',
                  fn, s, fail='the list stored for a meta tile (%s) is not the complete split of the fetched image: some tiles of the meta tile need another upstream request' % unparse(arg))
    rets = [r for r in returns_of(fn.node) if isinstance(r.value, ast.Name) and is_call(_elementwise(r.value, defs), 'split_meta_tiles')]
    ctx.check(bool(rets), 'TileCreator._create_meta_tile:returns-split', 'the created tiles returned are the stored ones', fn)
    sm = ctx.fn(TILE + ':split_meta_tiles')
    g = sm.cfg
    loop = [s for s in sm.walk() if isinstance(s, ast.For)]
    ok = len(loop) == 1 and unparse(loop[0].iter) == sm.params[1]
    app = g.find(lambda x: is_call(x, 'split_tiles.append'))
    conts = g.find_stmts(lambda s: isinstance(s, (ast.Continue, ast.Break)) or (isinstance(s, ast.Return) and inside(s, loop[0]) if loop else False))
    none_atom = lambda at: at.op == '==' and 'tile_coord' in at.text and 'None' in at.text
    ok = ok and len(app) == 1 and inside(app[0][1], loop[0]) and all(isinstance(g.stmt[c], ast.Continue) and g.guarded(c, none_atom, True) for c in conts)
    # the append is reachable for every entry with a coordinate: only guard is the None test
    if ok:
        guards = [(at.text, p) for at, p in g.guards_of(app[0][0])]
        ok = all(none_atom(at) for at, p in g.guards_of(app[0][0]))
    ctx.check(ok, 'split_meta_tiles:one-tile-per-entry', 'one tile is appended per pattern entry; entries are skipped only when they have no coordinate', sm,
              fail='split_meta_tiles drops pattern entries for another reason than a missing coordinate')
    defs = Defs(sm.node)
    tc = [x for x in sm.walk() if is_call(x, 'Tile')]
    gt = [x for x in sm.walk() if is_call(x, 'splitter.get_tile')]
    ok = bool(tc) and bool(gt) and len(tc[0].args) >= 1 and len(gt[0].args) >= 2 and unparse(gt[0].args[1]) == sm.params[2]
    if ok:
        # coordinate = element 0 and crop position = element 1 of the same entry of the patterns parameter
        ok = origin_path(tc[0].args[0], defs) == (sm.params[1], ('elem', 0)) and origin_path(gt[0].args[0], defs) == (sm.params[1], ('elem', 1))
    ctx.check(ok, 'split_meta_tiles:pairs-coord-with-crop', 'each tile takes its coordinate and its crop position from the same pattern entry', sm,
              fail='a tile is cut at the crop position of another pattern entry')
    fb = ctx.fn(TILE + ':TileCreator._create_bulk_meta_tile')
    stores = [x for x in fb.walk_all() if is_call(x, 'self.cache.store_tiles')]
    ok = bool(stores)
    for s in stores:
        a = cexpr(s.args[0])
        tv = unparse(a.generators[0].target) if isinstance(a, ast.ListComp) and len(a.generators) == 1 else '?'
        ok = ok and isinstance(a, ast.ListComp) and len(a.generators) == 1 and same(a.generators[0].iter, 'tiles') and \
            [unparse(i) for i in a.generators[0].ifs] == [tv + '.cacheable'] and unparse(a.elt) == tv
    ctx.check(ok, 'TileCreator._create_bulk_meta_tile:stores-all-cacheable', 'every collected tile that is cacheable is stored', fb,
              fail='the bulk creator does not store all cacheable tiles it fetched')
    fbdefs = Defs(fb.node)
    im = [x for x in fb.walk_all() if is_call(x, 'imap')]
    ap = [x for x in fb.walk_all() if isinstance(x, ast.Call) and isinstance(x.func, ast.Attribute) and x.func.attr == 'append' and
          any(x is y for l in fb.walk_all() if isinstance(l, ast.For) and im and is_call(cexpr(l.iter), 'imap') for y in ast.walk(l))]
    coords = cexpr(im[0].args[1]) if im and len(im[0].args) > 1 else None
    ok = bool(ap) and bool(im) and isinstance(coords, ast.ListComp) and same(coords.generators[0].iter, 'meta_tile.tiles')
    ctx.check(ok, 'TileCreator._create_bulk_meta_tile:all-tiles-queried', 'every tile of the meta tile is queried', fb)


@rule('C04.b', floor=4)
def c04b(ctx):
    fn = ctx.fn(TILE + ':TileCreator.create_tiles')
    g = fn.cfg
    defs = Defs(fn.node)
    cls = ctx.repo.cls(TILE + ':TileCreator')

    def leaves(mname, seen=()):
        """creator functions reached from helper `mname` through self.<helper>(...) calls and create_func arguments"""
        f = cls.method(mname)
        if f is None or mname in seen:
            return {mname}
        if mname in COVERED_CREATORS:
            return {mname}
        out = set()
        for x in f.walk():
            if isinstance(x, ast.Call) and isinstance(x.func, ast.Attribute) and same(x.func.value, 'self') and x.func.attr.startswith('_create'):
                if x.func.attr != '_create_threaded':      # maps the creator passed as argument (checked separately)
                    out |= leaves(x.func.attr, seen + (mname,))
                for a in x.args:
                    if isinstance(a, ast.Attribute) and same(a.value, 'self') and a.attr.startswith('_create'):
                        out |= leaves(a.attr, seen + (mname,))
        return out or {mname}
    # what create_tiles returns, in closed form: the result of one creator method per strategy (or [] without sources)
    cf = Canon(fn)
    rvals = [cf.expr(r.value) for r in returns_of(fn.node) if r.value is not None]
    multi = [r.value.id for r in returns_of(fn.node) if isinstance(r.value, ast.Name) and isinstance(cf.expr(r.value), ast.Name)]
    branches = [v for v in rvals if isinstance(v, ast.Call)] + [v for nm in multi for v, sel in defs.of(nm)]
    ok = bool(branches)
    for b in branches:
        if not (isinstance(b, ast.Call) and isinstance(b.func, ast.Attribute) and same(b.func.value, 'self')):
            ctx.bad('TileCreator.create_tiles:branch', 'created_tiles is assigned from %s, not from a creator method' % unparse(b)[:50], fn, b)
            continue
        lv = leaves(b.func.attr)
        ctx.check(lv <= COVERED_CREATORS, 'TileCreator.create_tiles:%s' % b.func.attr,
                  'strategy %s ends in %s (locked fetch-split-store creators)' % (b.func.attr, sorted(lv)), fn, b,
                  fail='strategy %s reaches %s: a creation path outside the locked creators covered by C08.a / C04.a' % (b.func.attr, sorted(lv - COVERED_CREATORS)))
    ok = bool(rvals) and all(isinstance(v, ast.Call) or same(v, '[]') or (isinstance(v, ast.Name) and v.id in multi) for v in rvals)
    ctx.check(ok, 'TileCreator.create_tiles:returns-created', 'create_tiles returns what the chosen creator produced (or nothing without sources)', fn)
    th = ctx.fn(TILE + ':TileCreator._create_threaded')
    ok = any(is_call(x, 'imap') and same(x.args[0], 'create_func') and same(x.args[1], 'tiles') for x in th.walk())
    ctx.check(ok, 'TileCreator._create_threaded:same-creator', 'the threaded strategy maps the same creator function over the tiles', th)


@rule('C04.c', floor=5)
def c04c(ctx):
    ms = ctx.fn(G + ':MetaGrid._meta_size')
    defs = Defs(ms.node)
    rets = returns_of(ms.node)
    ok = len(rets) == 1 and isinstance(rets[0].value, ast.Tuple) and len(rets[0].value.elts) == 2
    if ok:
        gs = [v for v, sel in defs.of('grid_size')]
        ok = len(gs) == 1 and same(gs[0], 'self.grid.grid_sizes[level]')
        for k, e in enumerate(rets[0].value.elts):
            ok = ok and is_call(e, 'min') and sorted(unparse(a) for a in e.args) == sorted(['self.meta_size[%d]' % k, 'grid_size[%d]' % k])
    ctx.check(ok, 'MetaGrid._meta_size:elementwise-min', '_meta_size(level) = (min(meta_size[0], grid_sizes[level][0]), min(meta_size[1], grid_sizes[level][1]))', ms,
              fail='_meta_size is not the element-wise minimum of the configured meta size and the level\'s grid size (same index on both sides)')
    # who reads self.meta_size
    readers = []
    for q, f in sorted(ctx.repo.funcs.items()):
        if not q.startswith(G + ':MetaGrid.'):
            continue
        for x in f.walk():
            if isinstance(x, ast.Attribute) and x.attr == 'meta_size' and same(x.value, 'self') and isinstance(x.ctx, ast.Load):
                readers.append(f.short)
    ok = set(readers) <= {'MetaGrid._meta_size'}
    ctx.check(ok, 'MetaGrid:meta-size-only-via-_meta_size', 'the configured meta size is only read by _meta_size (all geometry uses the level-limited size)', (G, ms.node.lineno),
              fail='self.meta_size is read directly by %s: levels smaller than the meta size get a wrong meta tile geometry' % sorted(set(readers) - {'MetaGrid._meta_size'}))
    users = ['main_tile', 'unbuffered_meta_bbox', '_tile_iter', 'get_affected_level_tiles', 'tile_list', 'meta_tile']
    for u in users:
        f = ctx.fn('%s:MetaGrid.%s' % (G, u))
        calls = [x for x in f.walk() if is_call(x, 'self._meta_size')]
        # ... directly, or by delegating the alignment to a sibling that does (get_affected_level_tiles -> main_tile)
        direct = {v for v in users if any(is_call(x, 'self._meta_size') for x in ctx.fn('%s:MetaGrid.%s' % (G, v)).walk())}
        via = [x for x in f.walk() if isinstance(x, ast.Call) and isinstance(x.func, ast.Attribute) and same(x.func.value, 'self')
               and x.func.attr in direct and x.func.attr != u]
        ok = bool(calls) or bool(via)
        # the level argument is the level of the coordinate handled in that function
        ctx.check(ok, 'MetaGrid.%s:uses-_meta_size' % u, 'meta geometry of this function goes through _meta_size(<level>)', f)
    # split pattern: column offset with tile_size[0] + left buffer, row offset with tile_size[1] + top buffer
    tp = ctx.fn(G + ':MetaGrid._tiles_pattern')
    from ..util import tiles_pattern_facts
    pf = tiles_pattern_facts(tp)
    ok = pf is not None and pf['x'] == sorted([['buffers[0]'], sorted([pf['col'], 'self.grid.tile_size[0]'])]) and \
        pf['y'] == sorted([['buffers[3]'], sorted([pf['row'], 'self.grid.tile_size[1]'])])
    ctx.check(ok, 'MetaGrid._tiles_pattern:offsets', 'crop x = col * tile_size[0] + left buffer, crop y = row * tile_size[1] + top buffer', tp,
              fail='the crop pattern does not use the tile size / buffer of the matching axis')
    reps = [r for f in ctx.repo.fns_in(G + ':MetaGrid.') for r in axis_reports(f)]
    ctx.check(not reps, 'MetaGrid:axis-clean', 'no MetaGrid method mixes X and Y quantities (shared rule C03.a)', (G, 0),
              fail='axis mix in MetaGrid: %s' % [m for n, m in reps][:2])


@rule('C04.d', floor=10)
def c04d(ctx):
    sub = run_property(ctx.repo, 'C08', ctx.tier, only={'C08.a', 'C08.b'})
    for er in sub.errors:
        raise Undecided('shared rule %s: %s' % er)
    for o in sub.obs:
        (ctx.ok if o.status == 'ok' else ctx.bad)('%s:%s' % (o.rule, o.construct), o.msg, o.where)
    ctx.stats['functions'] |= sub.stats['functions']


@rule('C04.e', floor=1)
def c04e(ctx):
    """a tile cut at the border of a (buffer-truncated) meta image is pasted at the overhang offset, not at (0, 0)"""
    fn = ctx.fn('mapproxy/image/tile.py:TileSplitter.get_tile')
    defs = Defs(fn.node)
    pastes = [x for x in fn.walk() if is_call(x, 'result.paste', 'paste') and len(x.args) >= 2]
    ok = bool(pastes)
    cf = Canon(fn)
    cp = fn.params[1]
    for p in pastes:
        # closed form of the paste position at the paste: component i is a function of the *unclamped* crop coordinate i
        pos = cf.linked(p.args[1])
        elts = pos.elts if isinstance(pos, ast.Tuple) else []
        ok = ok and len(elts) == 2
        for i, e in enumerate(elts[:2]):
            uses = [x for x in ast.walk(e) if isinstance(x, ast.Subscript) and unparse(x.value) == cp and const_value(x.slice) == i]
            clamped = []
            for u in uses:
                par = getattr(u, '_parent', None)
                while par is not None:
                    if isinstance(par, ast.Call) and call_name(par) == 'max':
                        clamped.append(u)
                    par = getattr(par, '_parent', None)
            ok = ok and bool(uses) and not clamped
    ctx.check(ok, 'TileSplitter.get_tile:paste-at-overhang', 'the clipped crop is pasted at an offset that depends on the (negative) crop x and y', fn,
              fail='the clipped crop of a border tile is pasted at a fixed position (or at one computed from the already clamped crop origin, '
                   'which is always 0): tiles whose crop starts outside the meta image are shifted')


@rule('C04.f', floor=4)
def c04f(ctx):
    """all tiles of a meta tile are stored where they are looked up: a bulk store that crosses a bundle border is split per tile
    (or sent to one bundle only when all tiles share it) -- shared rule C05.l"""
    sub = run_property(ctx.repo, 'C05', ctx.tier, only={'C05.l'})
    for er in sub.errors:
        raise Undecided('shared rule %s: %s' % er)
    for o in sub.obs:
        (ctx.ok if o.status == 'ok' else ctx.bad)('%s:%s' % (o.rule, o.construct), o.msg, o.where)
    ctx.stats['functions'] |= sub.stats['functions']


@rule('C04.g', floor=3)
def c04g(ctx):
    """a tile produced by a concurrent creator is produced under the configuration of the request: the worker threads of the pool
    run their tasks inside local_base_config(<configuration captured by the thread that created them>) -- the thread-local
    configuration stack of a new thread is empty, base_config() called there yields the defaults (other image options, other
    encoding of the stored tile)"""
    A = 'mapproxy/util/async_.py:ThreadWorker.'
    run, init = ctx.fn(A + 'run'), ctx.fn(A + '__init__')
    withs = [it for w in run.walk() if isinstance(w, ast.With) for it in w.items if is_call(it.context_expr, 'local_base_config')]
    ok = len(withs) == 1 and len(withs[0].context_expr.args) == 1
    attr = None
    if ok:
        form = run.canon.expr(withs[0].context_expr.args[0])
        ok = isinstance(form, ast.Attribute) and isinstance(form.value, ast.Name) and form.value.id == 'self'
        attr = form.attr if ok else None
    ctx.check(ok, 'ThreadWorker.run:uses-captured-config', 'the tasks run inside local_base_config(self.<attribute>)', run,
              fail='the worker does not install a configuration captured outside of its own thread')
    calls_own = [x for x in run.walk() if is_call(x, 'base_config')]
    ctx.check(not calls_own, 'ThreadWorker.run:no-own-lookup', 'the worker thread itself never asks base_config()', run,
              fail='base_config() is evaluated in the worker thread, whose configuration stack is empty: tasks run with the default configuration')
    sets = [s for s in init.walk() if isinstance(s, ast.Assign) and any(isinstance(t, ast.Attribute) and t.attr == attr and same(t.value, 'self')
                                                                          for t in s.targets)] if attr else []
    ok = len(sets) == 1 and is_call(init.canon.expr(sets[0].value), 'base_config')
    ctx.check(ok, 'ThreadWorker.__init__:captures-config', 'the configuration is captured with base_config() by the creating thread (in __init__)', init,
              fail='the creating thread does not capture its configuration for the worker')
    # the task loop lies inside the with block
    gets = [x for x in run.walk() if is_call(x, 'self.task_queue.get')]
    ok = bool(gets) and bool(withs) and all(any(inside(x, w) for w in run.walk() if isinstance(w, ast.With) and withs[0] in w.items) for x in gets)
    ctx.check(ok, 'ThreadWorker.run:tasks-inside-config', 'every task is fetched and run inside the with block', run)


@rule('C04.h', floor=2)
def c04h(ctx):
    """shared rule, re-evaluated for this property: the resolution gate of a source carries its float tolerance and tests both axes
    (C17.f) -- a tile requested alone and the same tile requested as part of a meta tile reach the gate with resolutions that
    differ by float noise and must get the same answer"""
    sub = run_property(ctx.repo, 'C17', ctx.tier, only={'C17.f'})
    for er in sub.errors:
        raise Undecided('shared rule %s: %s' % er)
    for o in sub.obs:
        if o.status == 'ok':
            ctx.ok('%s:%s' % (o.rule, o.construct), o.msg, o.where)
        else:
            ctx.bad('%s:%s' % (o.rule, o.construct), o.msg, o.where)
    ctx.stats['functions'] |= sub.stats['functions']


@rule('C04.i', floor=4)
def c04i(ctx):
    """the crop positions of a meta tile follow its real buffer: where the buffered rectangle is cut at the grid border, the buffer of
    that edge (in pixels) shrinks by exactly the distance that was cut off -- (grid edge - buffered edge) / resolution, measured before
    the coordinate is replaced by the grid edge.  _tiles_pattern places the tiles with these buffers: a buffer that is too small or
    too large by n pixels cuts every tile of the meta tile n pixels off its place"""
    from ..flow import affine
    fn = ctx.fn(G + ':MetaGrid._buffered_bbox')
    bp = fn.params[1]
    sets = [st for st in fn.walk() if isinstance(st, (ast.Assign, ast.AugAssign)) and
            isinstance((st.targets[0] if isinstance(st, ast.Assign) else st.target), ast.Subscript) and
            unparse((st.targets[0] if isinstance(st, ast.Assign) else st.target).value) == 'buffers' and
            isinstance(const_value((st.targets[0] if isinstance(st, ast.Assign) else st.target).slice), int)]
    seen = set()
    for st in sets:
        tg = st.targets[0] if isinstance(st, ast.Assign) else st.target
        k = const_value(tg.slice)
        seen.add(k)
        if isinstance(st, ast.AugAssign):       # buffers[k] -= E  is  buffers[k] = buffers[k] - E
            v = ast.BinOp(left=ast.Subscript(value=ast.Name(id='buffers', ctx=ast.Load()), slice=ast.Constant(value=k), ctx=ast.Load()),
                          op=st.op, right=fn.canon.expr(st.value))
        else:
            v = fn.canon.expr(st.value)
        ok = isinstance(v, ast.BinOp) and isinstance(v.op, ast.Sub) and unparse(v.left).replace(' ', '') == 'buffers[%d]' % k
        detail = unparse(v)[:90]
        if ok:
            r = v.right
            while isinstance(r, ast.Call) and simple_name(r) in ('int', 'round') and r.args:
                r = r.args[0]
            ok = isinstance(r, ast.BinOp) and isinstance(r.op, ast.Div) and unparse(r.right).replace(' ', '') == 'self.grid.resolution(level)'
            if ok:
                a = affine(r.left)
                a = {k_.replace(' ', ''): c for k_, c in (a or {}).items() if c != 0}
                sgn = 1 if k < 2 else -1
                want = {'self.grid.bbox[%d]' % k: sgn, '%s[%d]' % (bp, k): -sgn, 'self.meta_buffer*self.grid.resolution(level)': 1}
                ok = a == want
                detail = 'cut-off distance %s' % unparse(r.left)[:90]
        # the branch is the one that clips this edge
        iff = enclosing(st, ast.If)
        ok = ok and iff is not None and contains(cexpr(iff.test), lambda x: isinstance(x, ast.Subscript) and unparse(x.value) == 'self.grid.bbox' and const_value(x.slice) == k)
        ctx.check(ok, 'MetaGrid._buffered_bbox:buffer%d-shrinks-by-cut' % k,
                  'buffers[%d] -= (distance between the grid edge %d and the buffered edge) / resolution, in the branch that clips that edge' % (k, k), fn, st,
                  fail='the buffer of edge %d is not reduced by the distance that was cut off at the grid border (%s): the tiles of a meta tile '
                       'at the border are cropped at the wrong offset' % (k, detail))
    if seen != {0, 1, 2, 3}:
        ctx.bad('MetaGrid._buffered_bbox:all-edges', 'buffers are adjusted for edges %s only' % sorted(seen), fn)


@rule('C04.j', floor=2)
def c04j(ctx):
    """a tile cut out of a larger picture sits where it sits in the picture: where the transformer only crops (same resolution), the
    crop offset is the nearest pixel, int(round(offset)) -- the offset is computed in floating point and comes out as 175.9999999 for
    176; truncated, every tile cut from a meta tile is shifted by one pixel against the same tile fetched alone"""
    fn = ctx.fn('mapproxy/image/transform.py:ImageTransformer._transform_simple')
    crops = [x for x in fn.walk() if isinstance(x, ast.Call) and isinstance(x.func, ast.Attribute) and x.func.attr == 'crop' and x.args]
    if not crops:
        raise Undecided('_transform_simple: crop call not found')
    for k, x in enumerate(crops):
        box = x.args[0]
        if isinstance(box, ast.Name):               # the box held in a local first
            ds = [v for v, sel in Defs(fn.node).of(box.id) if sel is None]
            box = ds[0] if len(ds) == 1 else box
        elts = box.elts if isinstance(box, ast.Tuple) else []
        ok = len(elts) == 4
        offs = []
        for e in elts[:2]:
            c = fn.ctext(e, at=fn.cfg.node_for(x))
            offs.append(c)
            ok = ok and c.startswith('int(round(') and c.endswith('))')
        # the far corner is the near corner plus the size of the result
        for e, o in zip(elts[2:], elts[:2]):
            ok = ok and isinstance(e, ast.BinOp) and isinstance(e.op, ast.Add) and unparse(e.left) == unparse(o)
        ctx.check(ok, 'ImageTransformer._transform_simple:crop#%d:nearest-pixel' % (k + 1), 'the crop offset is int(round(..)) and the box has the size of the result', fn, x,
                  fail='the crop offset of _transform_simple is %s: not rounded to the nearest pixel' % offs)
    ctx.check(True, 'ImageTransformer._transform_simple:crop-sites', '%d crop site(s)' % len(crops), fn)


@rule('C04.k', floor=4)
def c04k(ctx):
    """two creators working at the same time do not write into each other's request: the request template of an upstream client is
    shared by all threads and is never written -- every function that fills in bbox / size / srs / format works on a copy
    (`self.request_template.copy()`).  No store goes to `self.request_template...` and none to a local that names the template itself"""
    n = 0
    for rel in ('mapproxy/client/wms.py', 'mapproxy/client/arcgis.py'):
        for fn in sorted(ctx.repo.fns_in(rel + ':'), key=lambda f: f.qn):
            if fn.name == '__init__':
                continue
            defs = Defs(fn.node)
            bad = []
            uses = False
            for x in fn.walk():
                if isinstance(x, ast.Attribute) and unparse(x) == 'self.request_template':
                    uses = True
                tgt = None
                if isinstance(x, (ast.Attribute, ast.Subscript)) and isinstance(x.ctx, (ast.Store, ast.Del)):
                    tgt = x
                elif isinstance(x, ast.Call) and isinstance(x.func, ast.Attribute) and x.func.attr in ('update', 'set', 'setdefault', 'pop', 'clear', 'append', 'extend'):
                    tgt = x.func.value
                if tgt is None:
                    continue
                root = tgt
                while isinstance(root, (ast.Attribute, ast.Subscript)):
                    if isinstance(root, ast.Attribute) and unparse(root) == 'self.request_template':
                        bad.append(unparse(tgt))
                        break
                    root = root.value
                if isinstance(root, ast.Name) and root.id != 'self':
                    if any(isinstance(v, ast.Attribute) and unparse(v) == 'self.request_template' for v, sel in defs.of(root.id)):
                        bad.append(unparse(tgt))
            if not uses:
                continue
            n += 1
            ctx.check(not bad, '%s:template-not-written' % fn.short, 'the shared request template is only read / copied', fn,
                      fail='%s writes to the request template shared by all threads (%s): concurrent tile creators overwrite each other\'s '
                           'bbox / size before the URL is built' % (fn.short, ', '.join(sorted(set(bad)))[:120]))
    if n < 4:
        raise Undecided('only %d functions using a request template found' % n)


@rule('C04.l', floor=3)
def c04l(ctx):
    """the picture of a meta tile and the pattern it is cut with describe the same block of tiles: a meta tile is the full
    meta_size block from its main tile on, also where the block reaches over the border of the grid (the tiles beyond it are `None`
    placeholders in the pattern).  Both sides use the unclamped block: the far corner of `unbuffered_meta_bbox` is
    main tile + meta_size - 1, and `meta_tile` lays the pattern out with `self._meta_size(level)`.  (A bbox clamped to the grid with
    an unclamped pattern -- or the reverse -- cuts the existing rows of a border meta tile from the wrong place of the picture)"""
    ub = ctx.fn(G + ':MetaGrid.unbuffered_meta_bbox')
    calls = [x for x in ub.walk() if is_call(x, 'self.grid._tiles_bbox') and x.args]
    if not calls:
        raise Undecided('unbuffered_meta_bbox: _tiles_bbox call not found')
    ok = True
    got = ''
    for x in calls:
        lst = ub.canon.expr(x.args[0])
        elts = lst.elts if isinstance(lst, (ast.List, ast.Tuple)) else []
        far = elts[-1] if len(elts) == 2 else None
        fe = far.elts if isinstance(far, ast.Tuple) and len(far.elts) == 3 else None
        if fe is None:
            ok = False
            continue
        got = unparse(far)
        for i in (0, 1):
            t = unparse(ub.canon.expr(fe[i]) if not isinstance(fe[i], ast.BinOp) else fe[i]).replace(' ', '')
            ok = ok and not contains(fe[i], lambda y: is_call(y, 'min', 'max')) and t in (
                'tile_coord[%d]+self._meta_size(tile_coord[2])[%d]-1' % (i, i), '%s+meta_size[%d]-1' % ('xy'[i], i),
                'tile_coord[%d]+meta_size[%d]-1' % (i, i)) or (ok and _far_corner_ok(ub, fe[i], i))
    ctx.check(ok, 'MetaGrid.unbuffered_meta_bbox:full-block', 'the far corner tile is main tile + meta_size - 1 (not clamped to the grid)', ub,
              fail='unbuffered_meta_bbox does not span the full meta_size block (%s): the picture and the cutting pattern of a border meta tile '
                   'disagree' % got[:80])
    mt = ctx.fn(G + ':MetaGrid.meta_tile')
    pats = [x for x in mt.walk() if is_call(x, 'self._tiles_pattern')]
    ok = bool(pats)
    for x in pats:
        gs = keyword(x, 'grid_size')
        ok = ok and gs is not None and is_call(mt.canon.expr(gs), 'self._meta_size')
    ctx.check(ok, 'MetaGrid.meta_tile:pattern-of-the-full-block', 'the tile pattern is laid out with grid_size = self._meta_size(level)', mt,
              fail='meta_tile lays the tile pattern out with a grid size other than the meta size of the level: rows of a border meta tile are cut '
                   'from the wrong place')
    mts = [x for x in mt.walk() if is_call(x, 'MetaTile')]
    ok = bool(mts) and all(keyword(x, 'grid_size', 3) is not None and is_call(mt.canon.expr(keyword(x, 'grid_size', 3)), 'self._meta_size') for x in mts)
    ctx.check(ok, 'MetaGrid.meta_tile:grid-size-handed-on', 'the MetaTile carries the same grid size', mt)


def _far_corner_ok(fn, e, i):
    """closed form `<main tile component i> + <meta size component i> - 1` in any grouping"""
    c = fn.canon.expr(e)
    t = unparse(c).replace(' ', '')
    if 'min(' in t or 'max(' in t:
        return False
    base = ('tile_coord[%d]' % i, 'xyz'[i])
    return any(t in ('%s+self._meta_size(tile_coord[2])[%d]-1' % (b, i), '%s+self._meta_size(z)[%d]-1' % (b, i)) for b in base)


@rule('C04.m', floor=3)
def c04m(ctx):
    """a tile is the same whichever way it was made -- also in what is done to it before it is stored: the pre-store filters
    (watermark ...) are applied to a created tile *before* the cache stores it, on the single tile path, the meta tile path and the bulk
    path alike (apply_tile_filter skips tiles that are already stored: applied after the store it does nothing, and the bulk tiles are
    stored and served without the filter while the same tile fetched alone has it)"""
    for m in ('_create_single_tile', '_create_meta_tile', '_create_bulk_meta_tile'):
        fn = ctx.fn(TILE + ':TileCreator.' + m)
        stores = [x for x in fn.walk_all() if is_call(x, 'self.cache.store_tile', 'self.cache.store_tiles')]
        filt = [x for x in fn.walk_all() if is_call(x, 'self.tile_mgr.apply_tile_filter')]
        if not stores:
            raise Undecided('%s: no store call' % m)
        first_store = min(x.lineno for x in stores)
        ok = bool(filt) and all(x.lineno < first_store for x in filt)
        ctx.check(ok, 'TileCreator.%s:filter-before-store' % m, 'apply_tile_filter comes before the store', fn,
                  fail='TileCreator.%s applies the tile filters after the tiles were stored (or not at all): stored and served tiles lack the '
                       'filter on this path only' % m)
