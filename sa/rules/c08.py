"""C08 -- concurrent requests for one uncached tile: all correct, one upstream fetch.
Decided: the check-lock-recheck protocol is a shape of the creator functions: every
upstream fetch and every cache store is lexically inside the tile lock and
edge-dominated by the negative re-check of is_cached evaluated inside the lock, while the
cached branch loads (C08.a); the lock of a meta tile is a function of the meta tile
only and the normalisation has the quotient form (C08.b); lock names are injective per
cache and tile (C08.c); every bundle mutation happens under the bundle lock (C08.d).
Added in round 4: every walk over / write to the shared table of per-level databases holds the table
lock (C08.h); tiles stored by a concurrent request between the batch load and the existence check
are loaded afterwards (C08.i).
Added in round 5: renderd front end and back end use different tile lock ids (C08.j); the record is
appended before the index entry is set (C08.k, shared C06.c).
Added in round 6: the race loser loads with the dimensions of the request (C08.l); lock file names
separate the coordinates (C08.m); the age is read again under the lock (C08.n, shared C13.a; C08.o, shared C13.p)."""
import ast
import re

from ..engine import rule
from ..model import Undecided
from ..cfg import same, cexpr, dotted, call_name, is_call, simple_name, unparse, const_value, contains, enclosing, implied
from ..flow import Canon, Defs, depends, expand, names_in, try_const
from ..util import keyword, returns_of, calls_in, inside, order_key

NOT_DECIDED = 'the outcome under all interleavings of threads and processes; flock semantics of the file system'

TILE = 'mapproxy/cache/tile.py'
RENDERD = 'mapproxy/cache/renderd.py'
COMPACT = 'mapproxy/cache/compact.py'

CREATORS = [
    (TILE + ':TileCreator._create_single_tile', False),
    (TILE + ':TileCreator._create_meta_tile', True),
    (TILE + ':TileCreator._create_bulk_meta_tile', True),
    (RENDERD + ':RenderdTileCreator._create_single_tile', False),
    (RENDERD + ':RenderdTileCreator._create_meta_tile', True),
]


def is_lock_item(expr):
    """with-item expressions that take the tile lock"""
    if not isinstance(expr, ast.Call):
        return False
    n = call_name(expr) or ''
    last = n.split('.')[-1]
    return last in ('lock', 'tile_locker', 'FileLock') or last.endswith('_lock') or last.endswith('locker')


def lock_withs(fn):
    out = []
    for n in fn.walk_all():
        if isinstance(n, (ast.With, ast.AsyncWith)) and any(is_lock_item(it.context_expr) for it in n.items):
            out.append(n)
    return out


def is_fetch(x):
    return is_call(x, 'self._query_sources', 'self._create_renderd_tile')


def is_store(x):
    return is_call(x, 'self.cache.store_tile', 'self.cache.store_tiles')


def is_load(x):
    return is_call(x, 'self.cache.load_tile', 'self.cache.load_tiles')


def cached_atom(at):
    return at.mentions(lambda x: is_call(x, 'is_cached'))


@rule('C08.a', floor=20)
def c08a(ctx):
    for qn, meta in CREATORS:
        fn = ctx.fn(qn)
        g = fn.cfg
        locks = lock_withs(fn)
        sites = sorted([x for x in fn.walk_all() if is_fetch(x) or is_store(x)], key=order_key)
        if not locks:
            ctx.bad(fn.short + ':lock', 'creator takes no tile lock (`with <lock>(tile):`)', fn)
            continue
        if not sites:
            ctx.bad(fn.short + ':sites', 'creator has neither an upstream fetch nor a cache store', fn)
            continue
        edges = g.guard_edges(cached_atom, False)
        # the re-check itself must be evaluated inside the lock
        tests_inside = []
        for s, d in edges:
            st = g.stmt[s]
            tests_inside.append(any(inside(st, w) for w in locks))
        ctx.check(bool(edges) and all(tests_inside), fn.short + ':recheck-inside-lock',
                  'is_cached is re-evaluated inside the lock', fn,
                  fail='no is_cached re-check inside the `with <lock>` block (a second creator that waited for the '
                       'lock fetches and stores again)' if not edges else 'an is_cached test that guards the fetch '
                       'is evaluated outside the lock')
        for k, x in enumerate(sites):
            kind = 'fetch' if is_fetch(x) else 'store'
            node = g.node_for(x)
            construct = '%s:%s%d' % (fn.short, kind, k)
            inlock = any(inside(x, w) and not any(x is it.context_expr or inside(x, it.context_expr) for it in w.items)
                         for w in locks)
            ctx.check(inlock, construct + '-under-lock', '%s is inside `with <lock>`' % unparse(x.func), fn, x,
                      fail='%s runs outside the tile lock' % unparse(x.func))
            guarded = node is not None and g.guarded(node, cached_atom, False)
            ctx.check(guarded, construct + '-after-recheck',
                      '%s only runs when the is_cached re-check was negative' % unparse(x.func), fn, x,
                      fail='%s is reachable without a negative is_cached re-check (path: %s)' % (
                          unparse(x.func), g.path(0, node, skip_edges=edges) if node is not None else '?'))
            if meta and kind == 'fetch':
                # the re-check covers all tiles of the meta tile (C13.d)
                alls = [at for s, d, test, pol in g.branch_edges() for at, p in implied(cexpr(test), pol)
                        if cached_atom(at) and p is False]
                ok = any(at.mentions(lambda y: is_call(y, 'all')) and
                         at.mentions(lambda y: isinstance(y, ast.Attribute) and y.attr == 'tiles') for at in alls)
                ctx.check(ok, construct + '-recheck-all-tiles', 're-check is all(is_cached(t) for t in meta_tile.tiles)',
                          fn, x, fail='the re-check does not cover all tiles of the meta tile')
        # the cached branch loads from the cache
        loads = [g.node_for(x) for x in fn.walk_all() if is_load(x)]
        reach = g.reachable(0, skip_edges=edges)
        ctx.check(any(n in reach for n in loads), fn.short + ':cached-branch-loads',
                  'when the re-check finds the tile cached it is loaded from the cache', fn,
                  fail='no cache.load_tile(s) on the path where the re-check found the tile cached: the waiting '
                       'request returns tiles without image data')


@rule('C08.b', floor=8)
def c08b(ctx):
    for qn, meta in CREATORS:
        if not meta:
            continue
        fn = ctx.fn(qn)
        defs = Defs(fn.node)
        param = 'meta_tile'
        if param not in fn.params:
            raise Undecided('%s has no meta_tile parameter' % qn)
        for w in lock_withs(fn):
            for it in w.items:
                if not is_lock_item(it.context_expr):
                    continue
                call = it.context_expr
                if not call.args:
                    ctx.bad(fn.short + ':lock-arg', 'lock call without a tile argument', fn, call)
                    continue
                roots = set()
                ex = expand(call.args[0], defs, roots=roots)
                names = roots
                foreign = {n for n in roots if n in set(fn.params) and n != param}
                uses_self = 'self' in roots
                foreign -= {'self'}
                ctx.check(param in names and not foreign and not uses_self, fn.short + ':lock-arg-from-meta-tile',
                          'the lock argument %s is derived from the meta_tile parameter alone' % unparse(call.args[0]),
                          fn, call, fail='the lock argument %s depends on %s, not only on the meta tile: two requests '
                          'for the same meta tile can take different locks' % (
                              unparse(call.args[0]), sorted(foreign) or ('self' if uses_self else 'nothing of the meta tile')))
        # re-check iterates the same meta tile
        tests = [cexpr(n.test) for n in fn.walk_all() if isinstance(n, ast.If) and contains(n.test, lambda x: is_call(x, 'is_cached'))]
        ok = bool(tests) and all(contains(t, lambda x: isinstance(x, ast.Attribute) and x.attr == 'tiles' and
                                          isinstance(x.value, ast.Name) and x.value.id == param) for t in tests)
        ctx.check(ok, fn.short + ':recheck-same-meta-tile', 'the re-check iterates meta_tile.tiles of the locked meta tile', fn)
    # normalisation in TileManager.lock -> MetaGrid.main_tile quotient form
    lk = ctx.fn(TILE + ':TileManager.lock')
    uses_norm = any(is_call(x, 'main_tile') for x in lk.walk())
    if uses_norm:
        mt = ctx.fn('mapproxy/grid.py:MetaGrid.main_tile')
        rets = [r for r in returns_of(mt.node) if r.value is not None]
        cf = Canon(mt)
        forms = [cf.expr(r.value) for r in rets]
        if len(rets) != 1 or not isinstance(forms[0], ast.Tuple) or len(forms[0].elts) != 3:
            raise Undecided('MetaGrid.main_tile does not return a 3-tuple')
        P = mt.node.args.args[1].arg if len(mt.node.args.args) > 1 else 'tile_coord'
        for k in (0, 1):
            got = ast.unparse(forms[0].elts[k]).replace(' ', '')
            m = 'self._meta_size(%s[2])[%d]' % (P, k)
            want = {'%s[%d]//%s*%s' % (P, k, m, m), '%s*(%s[%d]//%s)' % (m, P, k, m)}
            ctx.check(got in want, 'MetaGrid.main_tile:quotient-%s' % 'xy'[k],
                      'main tile on axis %d is v // m[%d] * m[%d] with m = _meta_size(level of the same tile)' % (k, k, k),
                      mt, rets[0], fail='main tile on axis %d is %s: not the quotient form v // m[%d] * m[%d] with the '
                      'level\'s own meta size -- tiles of one meta tile map to different locks' % (k, got, k, k))
        ctx.check(same(forms[0].elts[2], '%s[2]' % P), 'MetaGrid.main_tile:level', 'the level is passed through', mt)
    else:
        ctx.ok('TileManager.lock:no-normalisation', 'lock() does not normalise; MetaTile.main_tile_coord is used as is', lk)


def _derived_only_from(name, defs, param, depth=5):
    if depth == 0:
        return False
    ds = defs.of(name)
    if not ds:
        return False
    for v, sel in ds:
        if isinstance(v, ast.Lambda):
            return False
        for n in names_in(v):
            if n in (param, 'Tile'):
                continue
            if n in defs.defs and _derived_only_from(n, defs, param, depth - 1):
                continue
            if n not in defs.defs and n not in defs.params:
                continue    # global/builtin name
            return False
    return True


QUICK_CACHES = [('mapproxy/cache/file.py', 'FileCache'), (COMPACT, 'CompactCacheBase'),
                ('mapproxy/cache/mbtiles.py', 'MBTilesCache'), ('mapproxy/cache/mbtiles.py', 'MBTilesLevelCache'),
                ('mapproxy/cache/geopackage.py', 'GeopackageCache'), ('mapproxy/cache/geopackage.py', 'GeopackageLevelCache')]
THOROUGH_CACHES = [('mapproxy/cache/s3.py', 'S3Cache'), ('mapproxy/cache/azureblob.py', 'AzureBlobCache'),
                   ('mapproxy/cache/redis.py', 'RedisCache'), ('mapproxy/cache/couchdb.py', 'CouchDBCache')]


@rule('C08.c', floor=9)
def c08c(ctx):
    fn = ctx.fn('mapproxy/cache/base.py:TileLocker.lock_filename')
    rets = returns_of(fn.node)
    defs = Defs(fn.node)
    ok_id = bool(rets) and all(depends(r.value, lambda x: same(x, 'self.lock_cache_id'), defs) for r in rets)
    ctx.check(ok_id, fn.short + ':uses-cache-id', 'lock file name depends on self.lock_cache_id', fn)
    ok_dir = bool(rets) and all(depends(r.value, lambda x: same(x, 'self.lock_dir'), defs) for r in rets)
    ctx.check(ok_dir, fn.short + ':in-lock-dir', 'lock file lives in self.lock_dir', fn)
    # all of tile.coord: every occurrence of tile.coord is used whole (argument of map/join/str/format) or all
    # three indices occur
    cf = Canon(fn)
    occ = [x for r in rets for x in ast.walk(cf.linked(r.value)) if isinstance(x, ast.Attribute) and x.attr == 'coord']
    whole = [x for x in occ if not isinstance(getattr(x, '_parent', None), ast.Subscript)]
    idx = {const_value(x._parent.slice) for x in occ if isinstance(getattr(x, '_parent', None), ast.Subscript)
           and not isinstance(x._parent.slice, ast.Slice)}
    ok = bool(occ) and (bool(whole) or idx >= {0, 1, 2})
    ctx.check(ok, fn.short + ':uses-all-of-coord', 'lock file name depends on all three components of tile.coord', fn,
              fail='lock file name uses only part of tile.coord (%s): tiles of different %s share a lock file' % (
                  [unparse(x._parent) for x in occ], 'levels/rows/columns'))
    caches = QUICK_CACHES + (THOROUGH_CACHES if ctx.thorough else [])
    for rel, cname in caches:
        init = ctx.fn('%s:%s.__init__' % (rel, cname))
        defs = Defs(init.node)
        vals = [v for v, sel in defs.of('self.lock_cache_id')]
        ok = bool(vals) and all(depends(v, lambda x: is_call(x, 'hexdigest'), defs) for v in vals)
        # digest of a constructor parameter (the cache's own location)
        params = set(init.params) - {'self'}
        ok2 = bool(vals) and all(depends(v, lambda x: isinstance(x, ast.Name) and x.id in params, defs) for v in vals)
        ctx.check(ok and ok2, '%s.__init__:lock_cache_id' % cname,
                  'lock_cache_id is a digest of the cache\'s own location parameter', init,
                  fail='lock_cache_id of %s is not a digest of its location: two caches share lock files' % cname)
    # loader builds the locker from cache.lock_cache_id
    loader = ctx.repo.mod('mapproxy/config/loader.py')
    sites = [x for x in ast.walk(loader.tree) if is_call(x, 'TileLocker')]
    direct = 0
    for s in sites:
        a = keyword(s, 'lock_cache_id', 2)
        if a is not None and contains(a, lambda x: isinstance(x, ast.Attribute) and x.attr == 'lock_cache_id'):
            direct += 1
    ctx.check(direct >= 1, 'loader:locker-from-cache-id', 'the tile locker of a cache is built from cache.lock_cache_id',
              ('mapproxy/config/loader.py', sites[0].lineno if sites else 0),
              fail='no TileLocker(...) site passes cache.lock_cache_id')


MUTATORS = ('readwrite', '_readwrite', '_init_index', '_init_bundle', 'update_tile_offset', 'remove_tile_offset',
            '_store_tile', '_update_tile_offset', 'append_tile', '_append_tile', '_update_metadata')


def _is_filelock_with(w):
    return any(is_call(it.context_expr, 'FileLock') and it.context_expr.args and
               same(it.context_expr.args[0], 'self.lock_filename') for it in w.items)


@rule('C08.d', floor=14)
def c08d(ctx):
    """every bundle mutation is under the bundle FileLock or in a helper all of whose call sites are"""
    repo = ctx.repo
    for cname in ('BundleV1', 'BundleV2'):
        cls = repo.cls('%s:%s' % (COMPACT, cname))
        methods = {st.name: ctx.fn('%s:%s.%s' % (COMPACT, cname, st.name)) for st in cls.node.body
                   if isinstance(st, ast.FunctionDef)}

        def site_locked(fn, x, seen=()):
            w = enclosing(x, (ast.With, ast.AsyncWith))
            while w is not None:
                if _is_filelock_with(w) and not any(inside(x, it.context_expr) for it in w.items):
                    return True
                w = enclosing(w, (ast.With, ast.AsyncWith))
            # caller lift: private helper, all call sites locked
            if fn.name.startswith('_') and fn.name not in seen:
                callers = []
                for m in methods.values():
                    for c in m.walk_all():
                        if is_call(c, 'self.' + fn.name):
                            callers.append((m, c))
                if callers and all(site_locked(m, c, seen + (fn.name,)) for m, c in callers):
                    return True
            return False
        for mname, fn in sorted(methods.items()):
            for x in sorted([c for c in fn.walk_all() if isinstance(c, ast.Call) and simple_name(c) in MUTATORS], key=order_key):
                recv = unparse(x.func)
                if not (recv.startswith('self.') or recv.startswith('idx.') or recv.startswith('bundle.')
                        or '.readwrite' in recv):
                    continue
                ok = site_locked(fn, x)
                ctx.check(ok, '%s.%s:%s-under-lock' % (cname, mname, simple_name(x)),
                          '%s runs under FileLock(self.lock_filename)' % recv, fn, x,
                          fail='%s can modify the bundle/index file but is not under FileLock(self.lock_filename) '
                               '(nor in a private helper all of whose call sites are)' % recv)
    # the V1 data / index objects create their file in the constructor when it is missing (check-then-create): in every method
    # that writes (takes the bundle lock) they are constructed inside the lock, otherwise a second writer can replace a bundle
    # that already holds tiles by an empty one while the index keeps the old offsets
    cls = repo.cls(COMPACT + ':BundleV1')
    creating = set()
    for cn in ('BundleDataV1', 'BundleIndexV1'):
        ini = ctx.fn('%s:%s.__init__' % (COMPACT, cn))
        if any(is_call(x, 'self._init_bundle', 'self._init_index', 'write_atomic') for x in ini.walk()):
            creating.add(cn)
    factories = {st.name for st in cls.node.body if isinstance(st, ast.FunctionDef) and
                 any(isinstance(r, ast.Return) and isinstance(r.value, ast.Call) and simple_name(r.value) in creating for r in ast.walk(st))}
    nsites = 0
    for st in [x for x in cls.node.body if isinstance(x, ast.FunctionDef)]:
        fn = ctx.fn('%s:BundleV1.%s' % (COMPACT, st.name))
        locks = [w for w in fn.walk_all() if isinstance(w, ast.With) and _is_filelock_with(w)]
        if not locks:
            continue
        for x in sorted([c for c in fn.walk_all() if isinstance(c, ast.Call) and isinstance(c.func, ast.Attribute) and
                         same(c.func.value, 'self') and c.func.attr in factories], key=order_key):
            nsites += 1
            ok = any(inside(x, w) and not any(inside(x, it.context_expr) for it in w.items) for w in locks)
            ctx.check(ok, 'BundleV1.%s:%s-constructed-under-lock' % (st.name, x.func.attr),
                      'self.%s() (creates the file when it is missing) is constructed inside FileLock(self.lock_filename)' % x.func.attr, fn, x,
                      fail='self.%s() is constructed before the bundle lock is taken: its check-then-create of the bundle file races with a '
                           'writer that holds the lock (an empty data file replaces one that already holds tiles)' % x.func.attr)
    if creating and not nsites:
        raise Undecided('BundleV1: no data()/index() construction in a locking method found')
    # named exemption: BundleDataV1.__init__ -> _init_bundle, guarded by `not os.path.exists`
    init = ctx.fn(COMPACT + ':BundleDataV1.__init__')
    g = init.cfg
    calls = g.find(lambda x: is_call(x, 'self._init_bundle'))
    for n, x in calls:
        ok = g.guarded(n, lambda at: at.mentions(lambda y: is_call(y, 'os.path.exists', 'exists')), False)
        ctx.check(ok, 'BundleDataV1.__init__:init-only-if-missing',
                  '_init_bundle() in the constructor only runs when the data file does not exist (named exemption: '
                  'readers construct the data object only after the index gave a non-zero offset)', init, x)
    # sqlite initialisers
    for rel, cname, ens, ini, exists in (('mapproxy/cache/mbtiles.py', 'MBTilesCache', 'ensure_mbtile', '_initialize_mbtile', 'exists'),):
        fn = ctx.fn('%s:%s.%s' % (rel, cname, ens))
        g = fn.cfg
        for n, x in g.find(lambda x: is_call(x, 'self.' + ini)):
            w = enclosing(x, ast.With)
            locked = w is not None and any(is_call(it.context_expr, 'FileLock') for it in w.items)
            # re-check inside the lock
            inner = [e for e in g.guard_edges(lambda at: at.mentions(lambda y: is_call(y, 'os.path.exists')), False)
                     if w is not None and inside(g.stmt[e[0]], w)]
            ctx.check(locked and bool(inner) and n not in g.reachable(0, skip_edges=inner),
                      '%s.%s:init-under-lock-after-recheck' % (cname, ens),
                      'the database is initialised under the .init.lck lock after re-checking that it does not exist', fn, x)


@rule('C08.e', floor=3)
def c08e(ctx):
    """the tile lock really excludes: release and acquisition discipline of the file lock (shared rules C07.b, C07.c, C07.g)"""
    from ..engine import run_property
    sub = run_property(ctx.repo, 'C07', ctx.tier, only={'C07.b', 'C07.c', 'C07.g'})
    for er in sub.errors:
        raise Undecided('shared rule %s: %s' % er)
    for o in sub.obs:
        if 'lock-site' in o.construct:
            continue
        (ctx.ok if o.status == 'ok' else ctx.bad)('%s:%s' % (o.rule, o.construct), o.msg, o.where)
    ctx.stats['functions'] |= sub.stats['functions']


@rule('C08.f', floor=2)
def c08f(ctx):
    """requests for different meta tiles do not break each other: the sweep of the shared lock directory (run from TileLocker.lock
    on the request path) tolerates lock files that another request removes under it -- every call that raises for a vanished file
    sits in a try whose OSError handler has a non-raising path for ENOENT"""
    fn = ctx.fn('mapproxy/util/lock.py:cleanup_lockdir')
    loops = [l for l in fn.walk() if isinstance(l, ast.For) and is_call(l.iter, 'os.listdir', 'listdir', 'os.scandir')]
    if not loops:
        raise Undecided('cleanup_lockdir: no directory listing loop')
    RAISING = ('os.path.getmtime', 'getmtime', 'os.unlink', 'os.remove', 'os.stat', 'os.lstat', 'os.path.getsize', 'os.path.getctime', 'os.utime')
    n = 0
    for lp in loops:
        def raising(c):
            # os.<call>(path) or the same as a method of a directory entry / path object (entry.stat(), p.unlink())
            return is_call(c, *RAISING) or (isinstance(c, ast.Call) and isinstance(c.func, ast.Attribute) and
                                            c.func.attr in ('stat', 'lstat', 'unlink', 'getmtime'))
        for x in sorted([c for c in ast.walk(lp) if raising(c)], key=order_key):
            n += 1
            ok = False
            t = enclosing(x, ast.Try)
            while t is not None and inside(t, lp):
                in_body = any(inside(x, b) or x is b for b in t.body)
                for h in t.handlers if in_body else []:
                    names = {n_.id for n_ in ast.walk(h.type) if isinstance(n_, ast.Name)} | \
                        {n_.attr for n_ in ast.walk(h.type) if isinstance(n_, ast.Attribute)} if h.type is not None else {'BaseException'}
                    if names & {'OSError', 'EnvironmentError', 'Exception', 'BaseException', 'FileNotFoundError'}:
                        # the handler must not re-raise unconditionally
                        body = h.body
                        always = bool(body) and isinstance(body[-1], ast.Raise) and len(body) == 1
                        ok = ok or not always
                t = enclosing(t, ast.Try)
            ctx.check(ok, 'cleanup_lockdir:%s-tolerates-vanished-file' % simple_name(x),
                      '%s on a directory entry is covered by an OSError handler that ignores ENOENT' % call_name(x), fn, x,
                      fail='%s on a lock file can raise FileNotFoundError into an unrelated request: tile locks are released by removing '
                           'the file, so an entry can vanish between the listing and this call' % call_name(x))
    if not n:
        ctx.ok('cleanup_lockdir:no-raising-calls', 'the sweep performs no call that raises for a vanished entry', fn)
    tl = ctx.fn('mapproxy/cache/base.py:TileLocker.lock')
    ok = any(is_call(x, 'cleanup_lockdir') for x in tl.walk())
    ctx.check(True, 'TileLocker.lock:sweeps' if ok else 'TileLocker.lock:no-sweep', 'the sweep runs on the request path (TileLocker.lock)' if ok else
              'TileLocker.lock does not sweep the lock directory', tl)


@rule('C08.g', floor=1)
def c08g(ctx):
    """concurrent requests of one process that store the same file (two meta tiles of one colour that share a single-colour tile,
    the same legend ...) do not break each other: write_atomic writes to a temporary name that is its own for every call -- it
    contains a random / unique component; the process id alone is shared by all request threads"""
    fn = ctx.fn('mapproxy/util/fs.py:write_atomic')
    opens = [x for x in fn.walk() if is_call(x, 'os.open') and len(x.args) >= 2 and 'O_EXCL' in unparse(x.args[1])]
    if not opens:
        raise Undecided('write_atomic: exclusive create of the temporary file not found')
    for x in opens:
        form = fn.canon.expr(x.args[0])
        unique = contains(form, lambda y: isinstance(y, ast.Call) and (
            (call_name(y) or '').startswith(('random.', 'uuid.', 'secrets.', 'tempfile.')) or simple_name(y) in ('get_ident', 'mkstemp', 'uuid4', 'token_hex')))
        ctx.check(unique, 'write_atomic:temp-name-unique-per-call', 'the temporary file name has a random / per-call unique component', fn, x,
                  fail='the temporary name %s is the same for all threads of the process: two concurrent stores of the same file collide '
                       '(EEXIST, then the error path removes the other writer\'s file)' % unparse(form)[:80])


LEVEL_TABLES = [('mapproxy/cache/mbtiles.py', 'MBTilesLevelCache', '_mbtiles', '_mbtiles_lock'),
                ('mapproxy/cache/geopackage.py', 'GeopackageLevelCache', '_geopackage', '_geopackage_lock')]


@rule('C08.h', floor=4)
def c08h(ctx):
    """requests for different (meta) tiles do not break each other: the table of per-level databases of a level cache is shared by all
    request threads.  It grows (first request for a level) under the table lock; every walk over the table -- the clean-up that
    TileManager.session() runs at the end of each request -- holds the same lock, otherwise a concurrent insert raises "dictionary
    changed size during iteration" in a request that has nothing to do with that level.  (Single key look-ups are atomic and stay
    outside, double-checked under the lock.)"""
    for rel, cname, table_, lock in LEVEL_TABLES:
        cls = ctx.repo.cls('%s:%s' % (rel, cname))
        tname, lname = 'self.' + table_, 'self.' + lock
        n = 0
        for st in cls.node.body:
            if not isinstance(st, ast.FunctionDef) or st.name == '__init__':
                continue
            fn = ctx.fn('%s:%s.%s' % (rel, cname, st.name))

            def locked(x):
                w = enclosing(x, ast.With)
                while w is not None:
                    if any(unparse(it.context_expr) == lname for it in w.items):
                        return True
                    w = enclosing(w, ast.With)
                return False
            for x in fn.walk():
                walk = None
                if isinstance(x, (ast.For, ast.comprehension)) and contains(x.iter, lambda y: isinstance(y, ast.Attribute) and unparse(y) == tname):
                    walk = 'iteration over %s' % unparse(x.iter)
                elif isinstance(x, ast.Call) and isinstance(x.func, ast.Attribute) and unparse(x.func.value) == tname and \
                        x.func.attr in ('clear', 'pop', 'popitem', 'update', 'setdefault'):
                    walk = '%s.%s()' % (tname, x.func.attr)
                elif isinstance(x, ast.Call) and isinstance(x.func, ast.Name) and x.func.id in ('list', 'sorted', 'tuple', 'len', 'any', 'all', 'sum') and \
                        x.args and contains(x.args[0], lambda y: isinstance(y, ast.Attribute) and unparse(y) == tname) and x.func.id != 'len':
                    walk = '%s(%s)' % (x.func.id, unparse(x.args[0]))
                elif isinstance(x, ast.Subscript) and isinstance(x.ctx, (ast.Store, ast.Del)) and unparse(x.value) == tname:
                    walk = 'assignment to %s[..]' % tname
                if walk is None:
                    continue
                n += 1
                node = x if not isinstance(x, ast.comprehension) else x.iter
                k = sum(1 for o in ctx.obs if o.construct.startswith('%s.%s:table-access' % (cname, st.name)))
                ctx.check(locked(node), '%s.%s:table-access%d-under-lock' % (cname, st.name, k), '%s holds %s' % (walk, lname), fn, node,
                          fail='%s.%s: %s without %s: another request thread that opens a new level at that moment makes this one fail' % (
                              cname, st.name, walk, lname))
        if n < 2:
            raise Undecided('%s: fewer than 2 accesses to the level table found' % cname)


@rule('C08.i', floor=2)
def c08i(ctx):
    """every response contains the correct image, also when another request stores the tile between the batch load of this request and
    its existence check: TileManager._load_tile_coords partitions the requested tiles into "has to be created" and "is in the cache";
    a tile of the second kind that the batch load did not deliver (its source is still None) is loaded before the collection is
    returned.  Without that step the tile is neither created nor loaded and the answer is an empty tile"""
    fn = ctx.fn('mapproxy/cache/tile.py:TileManager._load_tile_coords')
    g = fn.cfg
    loads = sorted(g.find(lambda x: is_call(x, 'self.cache.load_tiles', 'self.cache.load_tile')), key=lambda nx: order_key(nx[1]))
    parts = g.find(lambda x: is_call(x, 'self._is_tile_missing'))
    if not parts or not loads:
        raise Undecided('_load_tile_coords: batch load / partition not found')
    pn = parts[0][0]
    late = [(n, x) for n, x in loads if g.reaches_avoiding(pn, n) and n != loads[0][0]]
    ok = bool(late)
    detail = 'no load after the existence check'
    for n, x in late:
        arg = x.args[0] if x.args else None
        # what is loaded late: the tiles that are judged cached (`_is_tile_missing` false) and still have no image
        apps = [a for a in fn.walk() if arg is not None and isinstance(arg, ast.Name) and is_call(a, arg.id + '.append')]
        good = bool(apps)
        for a in apps:
            an = g.node_for(a)
            good = good and g.guarded(an, lambda at: at.mentions(lambda y: is_call(y, 'self._is_tile_missing')), False) and \
                (g.guarded(an, lambda at: at.mentions(lambda y: is_call(y, 'is_missing')), True) or
                 g.guarded(an, lambda at: at.op == '==' and '.source' in at.text and 'None' in at.text, True))
        if not good:
            ok = False
            detail = 'the late load does not cover exactly the cached tiles without image'
        # it happens on the way to every return that follows the partition
    rets = [r for r in g.find_stmts(lambda s: isinstance(s, ast.Return)) if g.reaches_avoiding(pn, r)]
    ok = ok and bool(rets)
    ctx.check(ok, 'TileManager._load_tile_coords:late-tiles-loaded', 'tiles that are cached but were not delivered by the batch load are loaded after the existence check', fn,
              fail='%s: a tile stored by a concurrent request between the batch load and the existence check is answered as an empty tile' % detail)
    im = ctx.fn('mapproxy/cache/tile.py:TileManager._is_tile_missing')
    ok = any(is_call(x, 'self.is_cached') for x in im.walk())
    ctx.check(ok, 'TileManager._is_tile_missing:asks-the-cache', 'the existence check asks the cache again (it can see tiles stored after the batch load)', im)


@rule('C08.j', floor=2)
def c08j(ctx):
    """the front end of a renderd set-up and renderd itself do not wait for each other: the front end holds its tile lock while it
    waits for renderd, and renderd -- the same configuration loaded with renderd=True -- creates the tile under the regular tile lock
    of the cache.  The two lockers are built with different identifiers (the renderd one is not `cache.lock_cache_id`), or the back end
    waits for the lock the front end holds until the request times out"""
    fn = ctx.fn('mapproxy/config/loader.py:CacheConfiguration.caches')
    ctors = [x for x in fn.walk() if is_call(x, 'TileLocker')]
    if len(ctors) < 2:
        raise Undecided('CacheConfiguration.caches: %d TileLocker constructions found' % len(ctors))
    ids = []
    for x in ctors:
        a = keyword(x, 'lock_cache_id', 2)
        ids.append(fn.ctext(a, at=fn.cfg.node_for(x)) if a is not None else None)
    ok = all(i is not None for i in ids) and len(set(ids)) == len(ids)
    ctx.check(ok, 'CacheConfiguration.caches:renderd-lock-differs', 'the tile lockers of the renderd front end and of the regular creator have different identifiers', fn,
              fail='the tile locker handed to the renderd front end has the identifier of the regular tile lock (%s): front end and renderd '
                   'wait for each other' % ids)
    regular = [i for i in ids if i is not None and i.endswith('.lock_cache_id')]
    ctx.check(len(regular) == 1, 'CacheConfiguration.caches:regular-lock-id', 'exactly one locker -- the regular one -- is named by cache.lock_cache_id', fn)


@rule('C08.k', floor=2)
def c08k(ctx):
    """shared rule C06.c, re-evaluated for this property: a reader that runs next to the one writer of a bundle (readers take no lock)
    finds behind every index entry a complete record -- the record is appended before the index entry is set"""
    from ..engine import share
    share(ctx, 'C06', {'C06.c'}, keep=lambda o: 'Bundle' in o.construct)


@rule('C08.l', floor=2)
def c08l(ctx):
    """every response contains the correct image -- also the response of the request that lost the race: when the re-check under the
    meta tile lock finds the tiles already stored, they are loaded from the cache into *new* tile objects; that load names the
    dimensions of the request (`dimensions=self.dimensions`), or the loser reads the directory of no dimension: no image, or the image
    of another dimension value"""
    n = 0
    for m in ('_create_meta_tile', '_create_bulk_meta_tile'):
        fn = ctx.fn(TILE + ':TileCreator.' + m)
        for x in fn.walk():
            if is_call(x, 'self.cache.load_tiles'):
                n += 1
                d = keyword(x, 'dimensions', 2)
                ctx.check(d is not None and unparse(d) == 'self.dimensions', 'TileCreator.%s:loser-loads-with-dimensions' % m,
                          'cache.load_tiles(.., dimensions=self.dimensions)', fn, x,
                          fail='TileCreator.%s loads the tiles another request created without the dimensions of the request' % m)
    if n < 2:
        raise Undecided('only %d load_tiles calls in the meta tile creators' % n)


@rule('C08.m', floor=1)
def c08m(ctx):
    """requests for different meta tiles do not block each other: the name of a tile lock separates the three numbers of the
    coordinate -- `'-'.join(map(str, tile.coord))`, or a format with a non-digit literal between every two of them.  (Written
    `{x}{y}`, the tiles (4, 48, z) and (44, 8, z) share one lock file and wait for each other until one times out)"""
    fn = ctx.fn('mapproxy/cache/base.py:TileLocker.lock_filename')
    rets = [fn.canon.expr(r.value) for r in returns_of(fn.node) if r.value is not None]
    if not rets:
        raise Undecided('TileLocker.lock_filename: no return')

    def coord_index(e):
        c = fn.canon.expr(e) if isinstance(e, ast.Name) else e
        if isinstance(c, ast.Call) and call_name(c) == 'str' and c.args:
            c = fn.canon.expr(c.args[0]) if isinstance(c.args[0], ast.Name) else c.args[0]
        if isinstance(c, ast.Subscript) and unparse(c.value) == 'tile.coord' and isinstance(const_value(c.slice), int):
            return const_value(c.slice)
        return None

    def pieces(e):
        """flat list of ('lit', text) / ('coord', i) / ('all', None) / ('other', None) in order"""
        if isinstance(e, ast.JoinedStr):
            out = []
            for v in e.values:
                if isinstance(v, ast.Constant):
                    out.append(('lit', str(v.value)))
                elif isinstance(v, ast.FormattedValue):
                    i = coord_index(v.value)
                    out.append(('coord', i) if i is not None else ('other', None))
            return out
        if isinstance(e, ast.BinOp) and isinstance(e.op, ast.Add):
            return pieces(e.left) + pieces(e.right)
        if isinstance(e, ast.BinOp) and isinstance(e.op, ast.Mod) and isinstance(e.left, ast.Constant) and isinstance(e.left.value, str):
            args = e.right.elts if isinstance(e.right, ast.Tuple) else [e.right]
            out, k = [], 0
            for part in re.split(r'(%[sdi])', e.left.value):
                if re.fullmatch(r'%[sdi]', part):
                    i = coord_index(args[k]) if k < len(args) else None
                    out.append(('coord', i) if i is not None else ('other', None))
                    k += 1
                elif part:
                    out.append(('lit', part))
            return out
        if isinstance(e, ast.Constant):
            return [('lit', str(e.value))]
        if isinstance(e, ast.Call) and isinstance(e.func, ast.Attribute) and e.func.attr == 'join' and isinstance(e.func.value, ast.Constant) and \
                e.args and 'tile.coord' in unparse(e.args[0]) and any(not ch.isdigit() for ch in str(e.func.value.value)):
            return [('all', None)]          # sep.join(<the three numbers>): separated by construction
        i = coord_index(e)
        return [('coord', i)] if i is not None else [('other', None)]
    ok = True
    for r in rets:
        args = r.args if is_call(r, 'os.path.join') else [r]
        ps = pieces(args[-1])
        if ('all', None) in ps:
            continue
        idx = [k for k, (kind, v) in enumerate(ps) if kind == 'coord']
        ok = ok and sorted(v for kind, v in ps if kind == 'coord') == [0, 1, 2]
        for a, b in zip(idx, idx[1:]):
            between = ''.join(v for kind, v in ps[a + 1:b] if kind == 'lit')
            ok = ok and any(not ch.isdigit() for ch in between)
    ctx.check(ok, 'TileLocker.lock_filename:coordinates-separated', 'x, y and z stand in the lock file name with a separator between them', fn,
              fail='the tile lock file name runs two coordinate numbers together: different tiles share one lock')


@rule('C08.n', floor=2)
def c08n(ctx):
    """shared rule C13.a, re-evaluated for this property: the re-check under the tile lock asks the store for the age of the tile
    (TileManager.is_cached loads the metadata whenever a threshold is in force, not only for a tile object without time stamp) -- or
    a tile a competitor has just refreshed is fetched a second time"""
    from ..engine import share
    share(ctx, 'C13', {'C13.a'})


@rule('C08.o', floor=3)
def c08o(ctx):
    """shared rule C13.p, re-evaluated for this property: the upstream is asked once for a tile that two requests need -- the request
    that waited for the tile lock re-checks with the age the *store* reports (the sqlite cache reads it again for a tile that already
    has its image), not with the age it read before the lock"""
    from ..engine import share
    share(ctx, 'C13', {'C13.p'})
