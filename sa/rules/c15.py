"""C15 -- parallel fan-out returns every result exactly once and in input order.
Decided: every place of the thread pool that turns an exception into a value does so only
in the non-raising mode or hands it to a consumer that tests the mode (C15.a); a worker
queues its result before it marks the task done (C15.b); the input index travels with the
result and the consumer re-sequences by it, advancing by one per yielded value (C15.c); the
exception transport of both modes (C15.d); order-sensitive users consume the iterator with a
plain loop (C15.e).
Added in round 5: one stop sentinel per started thread (C15.j); reductions over completely collected
results (C15.k); a forced stop empties both queues (C15.l)."""
import ast

from ..engine import rule
from ..model import Undecided
from ..cfg import same, same_args, dotted, call_name, is_call, simple_name, unparse, const_value, contains, enclosing
from ..flow import Defs, depends
from ..util import keyword, returns_of, calls_in, inside, order_key

NOT_DECIDED = 'completion orders, termination, thread scheduling'

A = 'mapproxy/util/async_.py'


def _mode_guard(g, node):
    """node only runs in the non-raising mode"""
    return g.guarded(node, lambda at: at.op is None and same(at.expr, 'raise_exceptions'), False) or \
        g.guarded(node, lambda at: at.op is None and same(at.expr, 'use_result_objects'), True)


@rule('C15.a', floor=2)
def c15a(ctx):
    cls = ctx.repo.cls(A + ':ThreadPool')
    n = 0
    for st in cls.node.body:
        if not isinstance(st, ast.FunctionDef):
            continue
        fn = ctx.fn('%s:ThreadPool.%s' % (A, st.name))
        g = fn.cfg
        for h in [x for x in fn.walk() if isinstance(x, ast.ExceptHandler)]:
            conv = [x for b in h.body for x in ast.walk(b) if is_call(x, 'sys.exc_info')]
            for x in conv:
                par = getattr(x, '_parent', None)
                if isinstance(par, ast.Call) and simple_name(par) in ('reraise', 'reraise_exception'):
                    continue
                n += 1
                node = g.node_for(x)
                ctx.check(_mode_guard(g, node), 'ThreadPool.%s:exception-to-value-only-in-result-mode' % st.name,
                          'the handler turns the exception into a value only when exceptions are not to be raised', fn, x,
                          fail='this `except Exception` handler turns the exception into an ordinary value (sys.exc_info()) '
                               'without testing the mode: in raise mode the caller receives the exc_info tuple as a result')
    if n < 2:
        raise Undecided('only %d exception-to-value conversions found in ThreadPool' % n)
    # both entry points derive the mode the same way
    for m in ('imap', 'starmap'):
        fn = ctx.fn('%s:ThreadPool.%s' % (A, m))
        calls = [x for x in fn.walk() if is_call(x, 'self.map_each')]
        # closed forms: the mode may travel through a local (`raise_exceptions = not use_result_objects`)
        want = lambda c: fn.ctext(ast.parse('not use_result_objects', mode='eval').body, at=fn.cfg.node_for(c))
        ok = bool(calls) and all(fn.ctext(keyword(c, 'raise_exceptions', 1) or ast.Constant(value=None), at=fn.cfg.node_for(c)) == want(c) and
                                 'use_result_objects' in want(c) for c in calls)
        ctx.check(ok, 'ThreadPool.%s:mode' % m, 'map_each(raise_exceptions=not use_result_objects)', fn)


@rule('C15.b', floor=3)
def c15b(ctx):
    fn = ctx.fn(A + ':ThreadWorker.run')
    g = fn.cfg
    puts = g.find(lambda x: is_call(x, 'self.result_queue.put'))
    dones = g.find(lambda x: is_call(x, 'self.task_queue.task_done'))
    if not puts or len(dones) < 2:
        ctx.bad('ThreadWorker.run:shape', 'result_queue.put / two task_done calls not found', fn)
        return

    def sentinel(at):
        return at.op == '==' and 'task' in (unparse(at.left), unparse(at.right)) and \
            (const_value(at.left, 1) is None or const_value(at.right, 1) is None)
    for n, d in dones:
        if g.guarded(n, sentinel, True):
            # after the sentinel was marked done no further task is taken: no path back to task_queue.get()
            gets = g.find(lambda x: is_call(x, 'self.task_queue.get'))
            nxt = bool(gets) and not any(g.reaches_avoiding(n, gn) for gn, _ in gets)
            ctx.check(bool(nxt), 'ThreadWorker.run:sentinel-done-then-break', 'the shutdown sentinel is marked done and the worker leaves the loop', fn, d)
        else:
            ok = any(g.dominates(p, n) and p != n for p, _ in puts)
            ctx.check(ok, 'ThreadWorker.run:put-before-done',
                      'the result is queued before the task is marked done (task_queue.join() implies all results are visible)', fn, d,
                      fail='task_done() is not dominated by result_queue.put(): join() can return before the last result is '
                           'queued and the final drain misses it')
    # every task produces exactly one put: the put is not inside the try/except of the call and not conditional
    for n, p in puts:
        lp = enclosing(p, ast.While)
        ok = lp is not None and enclosing(p, ast.If) is None or (enclosing(p, ast.If) is not None and not inside(enclosing(p, ast.If), lp))
        ctx.check(bool(ok), 'ThreadWorker.run:put-unconditional', 'every task puts exactly one result (success or exc_info)', fn, p)
    tr = [t for t in fn.walk() if isinstance(t, ast.Try)]
    ok = bool(tr) and all(any(contains(h, lambda x: is_call(x, 'sys.exc_info')) for h in t.handlers) for t in tr)
    ctx.check(ok, 'ThreadWorker.run:exception-captured', 'an exception of the task becomes its result (exc_info), it does not kill the worker', fn)


@rule('C15.c', floor=7)
def c15c(ctx):
    me = ctx.fn(A + ':ThreadPool.map_each')
    puts = [x for x in me.walk() if is_call(x, 'self.task_queue.put')]
    ok = False
    for p in puts:
        f = enclosing(p, ast.For)
        if f is not None and is_call(f.iter, 'enumerate') and isinstance(f.target, ast.Tuple):
            idx = f.target.elts[0]
            a = p.args[0]
            ok = isinstance(a, ast.Tuple) and len(a.elts) == 3 and unparse(a.elts[0]) == unparse(idx)
    ctx.check(ok, 'ThreadPool.map_each:tasks-indexed', 'tasks are enqueued as (i, func, arg) with i from enumerate(inputs)', me)
    run = ctx.fn(A + ':ThreadWorker.run')
    defs = Defs(run.node)
    put = [x for x in run.walk() if is_call(x, 'self.result_queue.put')]
    ok = bool(put)
    for p in put:
        a = p.args[0]
        ok = ok and isinstance(a, ast.Tuple) and len(a.elts) == 2 and isinstance(a.elts[0], ast.Name)
        if ok:
            ds = defs.of(a.elts[0].id)
            ok = len(ds) == 1 and ds[0][1] == 0 and same(ds[0][0], 'task')
            res = a.elts[1]
            ok = ok and isinstance(res, ast.Name) and any(is_call(v, 'func') for v, sel in defs.of(res.id))
    ctx.check(ok, 'ThreadWorker.run:index-travels', 'the result tuple is (first element of the task, result of func(*args))', run,
              fail='the worker does not return the task\'s own index with its result: results are attributed to other inputs')
    gr = ctx.fn(A + ':ThreadPool._get_results')
    g = gr.cfg
    loop = [s for s in gr.walk() if isinstance(s, ast.For)]
    if not loop or not isinstance(loop[0].target, ast.Tuple):
        raise Undecided('_get_results: loop over (i, value) not found')
    iv, vv = [unparse(e) for e in loop[0].target.elts]
    yields = g.find(lambda x: isinstance(x, ast.Yield))
    y_val = [(n, y) for n, y in yields if unparse(y.value) == vv]
    y_pop = [(n, y) for n, y in yields if is_call(y.value, 'results.pop')]
    eq = lambda at: at.op == '==' and {unparse(at.left), unparse(at.right)} == {iv, 'next_result'}
    ok = len(y_val) == 1 and g.guarded(y_val[0][0], eq, True)
    ctx.check(ok, 'ThreadPool._get_results:yield-iff-next', 'a fetched value is yielded only when its index is the next expected one', gr,
              fail='fetched values are yielded without comparing their index with next_result: results come out in completion order')
    stores = [s for s in gr.walk() if isinstance(s, ast.Assign) and isinstance(s.targets[0], ast.Subscript) and unparse(s.targets[0].value) == 'results']
    ok = len(stores) == 1 and unparse(stores[0].targets[0].slice) == iv and unparse(stores[0].value) == vv and \
        g.guarded(g.node_of[id(stores[0])], eq, False)
    ctx.check(ok, 'ThreadPool._get_results:park-others', 'every other value is parked as results[i] = value', gr,
              fail='out-of-order values are not parked under their own index (lost or attributed to another input)')
    ok = len(y_pop) == 1 and same(y_pop[0][1].value.args[0], 'next_result')
    if ok:
        w = enclosing(y_pop[0][1], ast.While)
        ok = w is not None and same(w.test, 'next_resultinresults')
    ctx.check(ok, 'ThreadPool._get_results:drain', 'parked values are drained with `while next_result in results: yield results.pop(next_result)`', gr)
    # next_result += 1 after each yield (three places: two in _get_results, consumer loops in map_each)
    for fn, label in ((gr, 'ThreadPool._get_results'), (me, 'ThreadPool.map_each')):
        gg = fn.cfg
        ys = [(n, y) for n, y in gg.find(lambda x: isinstance(x, ast.Yield)) if not _in_sequential(fn, y)]
        for k, (n, y) in enumerate(ys):
            st = gg.stmt[n]
            par = getattr(st, '_parent', None)
            body = None
            for fld in ('body', 'orelse'):
                b = getattr(par, fld, None)
                if isinstance(b, list) and st in b:
                    body = b
            nxt = body[body.index(st) + 1] if body and body.index(st) + 1 < len(body) else None
            ok = isinstance(nxt, ast.AugAssign) and unparse(nxt.target) == 'next_result' and isinstance(nxt.op, ast.Add) and const_value(nxt.value) == 1
            ctx.check(ok, '%s:advance-after-yield%d' % (label, k), 'next_result advances by exactly one after the yield', fn, y,
                      fail='next_result is not advanced by one after this yield: a result is skipped or repeated')
    # map_each: drain again after join
    g = me.cfg
    joins = g.find(lambda x: is_call(x, 'self.task_queue.join'))
    gets = g.find(lambda x: is_call(x, 'self._get_results'))
    ok = bool(joins) and len(gets) == 2 and g.dominates(gets[0][0], joins[0][0]) and g.dominates(joins[0][0], gets[1][0])
    ctx.check(ok, 'ThreadPool.map_each:drain-after-join', 'results are fetched again after task_queue.join() (nothing left in the queue)', me)
    ok = all(same(c.args[0], 'next_result') and same(c.args[1], 'results') for n, c in gets)
    ctx.check(ok, 'ThreadPool.map_each:shared-state', 'both passes share next_result and the parked results', me)


def _in_sequential(fn, y):
    st = enclosing(y, ast.If)
    while st is not None:
        if contains(st.test, lambda x: same(x, 'self.pool_size')):
            return True
        st = enclosing(st, ast.If)
    return False


@rule('C15.d', floor=6)
def c15d(ctx):
    fr = ctx.fn(A + ':ThreadPool._fetch_results')
    g = fr.cfg
    raises = g.find_stmts(lambda s: isinstance(s, ast.Raise))
    ok = bool(raises)
    for n in raises:
        ok = ok and g.guarded(n, lambda at: at.op is None and same(at.expr, 'raise_exceptions'), True)
        ok = ok and g.guarded(n, lambda at: at.mentions(lambda x: is_call(x, 'isinstance') and contains(x, lambda y: isinstance(y, ast.Name) and y.id == 'Exception')), True)
        st = g.stmt[n]
        ok = ok and st.exc is not None and contains(st.exc, lambda x: is_call(x, 'with_traceback'))
    ctx.check(ok, 'ThreadPool._fetch_results:reraise', 'in raise mode an exc_info triple is re-raised with its traceback', fr,
              fail='raise mode does not re-raise the transported exception (it is swallowed or yielded as a value)')
    sh = g.find(lambda x: is_call(x, 'self.shutdown'))
    ok = bool(sh) and bool(raises) and all(any(g.dominates(s, n) for s, _ in sh) for n in raises)
    ctx.check(ok, 'ThreadPool._fetch_results:shutdown-before-raise', 'the pool is shut down before the exception is re-raised', fr)
    ys = g.find(lambda x: isinstance(x, ast.Yield))
    ok = len(ys) == 1 and same(ys[0][1].value, 'task_result')
    ctx.check(ok, 'ThreadPool._fetch_results:yield-all', 'every other queue entry is yielded unchanged', fr)
    ri = ctx.fn(A + ':_result_iter')
    g = ri.cfg
    ar = g.find(lambda x: is_call(x, 'AsyncResult'))
    ok = len(ar) == 1 and same_args(ar[0][1].args, ['result', 'exception']) and \
        g.guarded(ar[0][0], lambda at: at.op is None and same(at.expr, 'use_result_objects'), True)
    ctx.check(ok, '_result_iter:result-objects', 'result-object mode yields AsyncResult(result, exception) per item', ri)
    sets = [s for s in ri.walk() if isinstance(s, ast.Assign) and unparse(s.targets[0]) == 'exception' and same(s.value, 'result')]
    nulls = [s for s in ri.walk() if isinstance(s, ast.Assign) and unparse(s.targets[0]) == 'result' and const_value(s.value, 1) is None]
    ok = len(sets) == 1 and len(nulls) == 1 and enclosing(sets[0], ast.If) is enclosing(nulls[0], ast.If) and sets[0].lineno < nulls[0].lineno
    if ok:
        t = enclosing(sets[0], ast.If).test
        ok = contains(t, lambda x: is_call(x, 'isinstance') and contains(x, lambda y: isinstance(y, ast.Name) and y.id == 'Exception')) and \
            contains(t, lambda x: isinstance(x, ast.Constant) and x.value == 3)
    ctx.check(ok, '_result_iter:triple-to-exception', 'an exc_info triple becomes .exception and .result is None', ri,
              fail='_result_iter does not move a transported exc_info triple into AsyncResult.exception (swallowed or reported as result)')
    lp = [s for s in ri.walk() if isinstance(s, ast.For)]
    inits = [s for s in ri.walk() if isinstance(s, ast.Assign) and unparse(s.targets[0]) == 'exception' and const_value(s.value, 1) is None]
    ok = bool(lp) and bool(inits) and all(inside(s, lp[0]) for s in inits) and bool(ar) and all(s.lineno < ar[0][1].lineno for s in inits)
    ctx.check(ok, '_result_iter:exception-reset-per-item', '`exception` is reset to None for every item (inside the loop, before the AsyncResult is built)', ri,
              fail='the exception of a failed item is carried over to the following items: successful items are reported as failed')
    ys = g.find(lambda x: isinstance(x, ast.Yield))
    ok = len(ys) == 2 and bool(lp) and all(inside(y, lp[0]) for n, y in ys)
    ctx.check(ok, '_result_iter:one-per-item', 'exactly one value is yielded per item in both modes', ri)
    sc = ctx.fn(A + ':ThreadPool._single_call')
    g = sc.cfg
    rs = g.find_stmts(lambda s: isinstance(s, ast.Raise))
    ok = bool(rs) and all(g.guarded(n, lambda at: at.op is None and same(at.expr, 'use_result_objects'), False) for n in rs)
    ctx.check(ok, 'ThreadPool._single_call:raise-mode', 'a single call re-raises unless result objects were requested', sc)


USERS = [('mapproxy/cache/tile.py:TileCreator._query_sources', 'layers.append'),
         ('mapproxy/service/wms.py:LayerRenderer._render_raise_exceptions', 'layer_merger.add'),
         ('mapproxy/service/wms.py:LayerRenderer._render_capture_source_errors', 'layer_merger.add')]


@rule('C15.e', floor=3)
def c15e(ctx):
    for qn, sink in USERS:
        fn = ctx.fn(qn)
        loops = [s for s in fn.walk() if isinstance(s, ast.For) and is_call(fn.canon.expr(s.iter), 'imap')]
        comps = [c for c in fn.walk() if isinstance(c, ast.ListComp) and len(c.generators) == 1 and is_call(fn.canon.expr(c.generators[0].iter), 'imap')]
        ok = len(loops) == 1
        if not loops and len(comps) == 1 and sink.endswith('.append'):
            # the accumulator loop in its comprehension form: `layers = [layer for layer in imap(..) if ..]` keeps the order
            c = comps[0]
            asg = enclosing(c, ast.Assign)
            ok = asg is not None and unparse(asg.targets[0]) == sink.rsplit('.', 1)[0] and \
                not contains(fn.canon.expr(c.generators[0].iter), lambda x: is_call(x, 'sorted', 'set', 'reversed')) and \
                not any(is_call(x, 'sort', 'sorted', 'reverse', 'reversed') and x.lineno > c.lineno for x in fn.walk())
        elif ok:
            lp = loops[0]
            adds = [x for x in ast.walk(lp) if is_call(x, sink)]
            ok = bool(adds) and not contains(lp.iter, lambda x: is_call(x, 'sorted', 'set', 'reversed'))
            # the collection is not reordered afterwards
            ok = ok and not any(is_call(x, 'sort', 'sorted', 'reverse', 'reversed') and x.lineno > lp.lineno for x in fn.walk())
            first = lp.iter.args[1] if len(lp.iter.args) > 1 else None
        ctx.check(ok, '%s:in-order-consumption' % fn.short, 'the imap iterator is consumed by a plain for loop that adds each layer in turn', fn,
                  fail='%s does not consume the results in iteration order with %s in the loop body' % (fn.short, sink))
    # the renderer adds every rendered layer image (both consumers)
    for qn, sink in USERS[1:]:
        fn = ctx.fn(qn)
        g = fn.cfg
        adds = g.find(lambda x: is_call(x, sink) and len(x.args) + len(x.keywords) == 2)
        ok = len(adds) >= 1 and all(g.guarded(n, lambda at: at.op == '==' and 'layer_img' in (unparse(at.left), unparse(at.right)), False)
                                    for n, x in adds)
        ok = ok and all(keyword(x, 'img', 0) is not None and same(keyword(x, 'img', 0), 'layer_img') and
                        keyword(x, 'coverage', 1) is not None and same(keyword(x, 'coverage', 1), 'layer.coverage') for n, x in adds)
        ctx.check(ok, '%s:adds-every-image' % fn.short, 'every non-empty layer image is added to the merger with its layer coverage', fn,
                  fail='%s does not add each rendered layer image (with layer.coverage) to the merger' % fn.short)


@rule('C15.f', floor=5)
def c15f(ctx):
    """sequence numbers start at 0 on both sides; the fetch loop runs while either queue still holds something; users of
    result objects read .result only when .exception is None and re-raise otherwise"""
    me = ctx.fn(A + ':ThreadPool.map_each')
    defs = Defs(me.node)
    nr = [v for v, sel in defs.of('next_result') if sel is None]
    en = [x for x in me.walk() if is_call(x, 'enumerate')]
    ok = bool(nr) and all(const_value(v) == 0 for v in nr) and bool(en) and all(len(x.args) == 1 and not x.keywords for x in en)
    ctx.check(ok, 'ThreadPool.map_each:numbering-from-zero', 'tasks are numbered from 0 and the consumer expects 0 first', me,
              fail='task numbering and the first expected index disagree: the first result is parked forever / results shift')
    fr = ctx.fn(A + ':ThreadPool._fetch_results')
    w = [s for s in fr.walk() if isinstance(s, ast.While)]
    ok = len(w) == 1
    if ok:
        from ..decide import expr_table
        tab = ctx.rows(expr_table(w[0].test))
        tq = [a for a in tab.atoms if 'task_queue.empty' in a]
        rq = [a for a in tab.atoms if 'result_queue.empty' in a]
        ok = len(tq) == 1 and len(rq) == 1 and all(v == ((not asg[tq[0]]) or (not asg[rq[0]])) for asg, v, _ in tab.assignments())
    ctx.check(ok, 'ThreadPool._fetch_results:loop-condition', 'results are fetched while the task queue or the result queue is non-empty', fr,
              fail='the fetch loop stops although results are still queued (or tasks still pending): results are lost')
    users = [('mapproxy/service/wms.py:LayerRenderer._render_raise_exceptions', 'layer_task'),
             ('mapproxy/service/wms.py:LayerRenderer._render_capture_source_errors', 'layer_task'),
             ('mapproxy/cache/tile.py:TileCreator._create_bulk_meta_tile', 'tile_task')]
    for qn, var in users:
        fn = ctx.fn(qn)
        g = fn.cfg
        lps = [l for l in fn.walk_all() if isinstance(l, ast.For) and is_call(fn.canon.expr(l.iter), 'imap') and const_value(keyword(fn.canon.expr(l.iter), 'use_result_objects')) is True]
        if lps and isinstance(lps[0].target, ast.Name):
            var = lps[0].target.id
        isnone = lambda at: at.op == '==' and ('%s.exception' % var) in at.text and 'None' in at.text
        reads = g.find(lambda x: isinstance(x, ast.Attribute) and x.attr == 'result' and unparse(x.value) == var)
        rer = g.find(lambda x: is_call(x, 'reraise', 'reraise_exception'))
        ok = bool(reads) and all(g.guarded(n, isnone, True) for n, x in reads) and bool(rer) and all(g.guarded(n, isnone, False) for n, x in rer)
        ctx.check(ok, '%s:result-iff-no-exception' % fn.short, '.result is used only when .exception is None; otherwise the exception is re-raised (or recorded)', fn,
                  fail='%s reads .result of a failed item or re-raises a successful one: a failure is swallowed or attributed wrongly' % fn.short)


@rule('C15.g', floor=3)
def c15g(ctx):
    """a forced pool shutdown drains the queues: it is only allowed on the way out.  Wherever a consumer of result objects calls
    shutdown(True) no further result is taken afterwards -- every path from the shutdown ends in a raise (no path back into the
    loop or to a normal return)"""
    users = ['mapproxy/service/wms.py:LayerRenderer._render_raise_exceptions', 'mapproxy/service/wms.py:LayerRenderer._render_capture_source_errors',
             'mapproxy/cache/tile.py:TileCreator._create_bulk_meta_tile']
    for qn in users:
        fn = ctx.fn(qn)
        g = fn.cfg
        shut = [(n, x) for n, x in g.find(lambda x: is_call(x, 'shutdown')) if x.args and const_value(x.args[0]) is True or
                const_value(keyword(x, 'force', 0)) is True]
        if not shut:
            ctx.ok('%s:no-forced-shutdown' % fn.short, 'no forced shutdown in this consumer', fn)
            continue
        for n, x in shut:
            reach = g.reachable(n, no_exc=True)
            loops = [g.node_of[id(l)] for l in fn.walk_all() if isinstance(l, (ast.For, ast.While)) and id(l) in g.node_of and inside(x, l)]
            ok = g.EXIT not in reach and not any(h in reach for h in loops)
            ctx.check(ok, '%s:forced-shutdown-only-before-raise' % fn.short, 'after shutdown(True) the consumer leaves by raising', fn, x,
                      fail='the pool is shut down (queues drained, workers stopped) and the consumer carries on: results of the remaining items are '
                           'lost or the consumer blocks on the result queue')


@rule('C15.h', floor=2)
def c15h(ctx):
    """one result per input also on the shortcut: the "single call, no threads" shortcut of imap / starmap is taken only when the
    number of *inputs* is one -- its test measures the same sequence the task list is built from (imap: zip(*args), i.e. the length
    of an argument sequence; starmap: the list of argument tuples itself, not the length of the first tuple)"""
    for m in ('imap', 'starmap'):
        fn = ctx.fn(A + ':ThreadPool.' + m)
        g = fn.cfg
        single = g.find(lambda x: is_call(x, 'self._single_call'))
        # closed form of the task list handed to map_each (it may be built in a local first)
        tasks = [c for x in fn.walk() if is_call(x, 'self.map_each') and x.args for c in [fn.canon.expr(x.args[0])] if isinstance(c, (ast.ListComp, ast.GeneratorExp))]
        if not single:
            ctx.ok('ThreadPool.%s:no-shortcut' % m, 'no single-call shortcut', fn)
            continue
        if len(tasks) != 1:
            raise Undecided('ThreadPool.%s: task list comprehension not found' % m)
        it = tasks[0].generators[0].iter
        if is_call(it, 'zip') and len(it.args) == 1 and isinstance(it.args[0], ast.Starred):
            want = '%s[0]' % unparse(it.args[0].value)      # number of tuples zip() yields = length of (each) argument sequence
        else:
            want = unparse(it)
        ok = True
        for n, x in single:
            ok = ok and g.guarded(n, lambda at: at.op == '==' and {unparse(at.left), unparse(at.right)} == {'len(%s)' % want, '1'}, True)
        ctx.check(ok, 'ThreadPool.%s:shortcut-iff-one-input' % m, 'the single-call shortcut is guarded by len(%s) == 1' % want, fn,
                  fail='the single-call shortcut is not guarded by the number of inputs (len(%s) == 1): several inputs whose first argument '
                       'tuple has one element yield a single result' % want)


@rule('C15.i', floor=2)
def c15i(ctx):
    """the call terminates (also the next one on the same pool): every task that is taken out of the task queue is accounted for with
    task_done() -- also the tasks a forced shutdown throws away -- so that task_queue.join() of the next run returns; the queues are
    only manipulated through get / put / task_done, never through their internals"""
    fn = ctx.fn(A + ':_consume_queue')
    g = fn.cfg
    gets = g.find(lambda x: isinstance(x, ast.Call) and isinstance(x.func, ast.Attribute) and x.func.attr in ('get', 'get_nowait'))
    dones = [n for n, x in g.find(lambda x: isinstance(x, ast.Call) and isinstance(x.func, ast.Attribute) and x.func.attr == 'task_done')]
    ok = bool(gets) and bool(dones)
    for n, x in gets:
        # after a successful get (non-exception edges) nothing but task_done leads on
        ok = ok and not (g.reaches_avoiding(n, g.EXIT, avoid=dones, no_exc=True) and n not in dones) or n in dones
    ctx.check(ok, '_consume_queue:every-removed-task-done', 'each item removed from the queue is followed by task_done()', fn,
              fail='tasks are removed from the queue without task_done(): unfinished_tasks stays above zero and the next run on the pool blocks in join()')
    internals = []
    for q, f in sorted(ctx.repo.funcs.items()):
        if not q.startswith(A + ':'):
            continue
        for x in f.walk():
            if isinstance(x, ast.Attribute) and x.attr in ('mutex', 'unfinished_tasks', 'all_tasks_done', 'not_empty') or \
                    (isinstance(x, ast.Attribute) and x.attr == 'queue' and isinstance(x.value, ast.Attribute) and x.value.attr.endswith('queue')) or \
                    (isinstance(x, ast.Attribute) and x.attr == 'queue' and isinstance(x.value, ast.Name) and x.value.id == 'queue'):
                internals.append((f, x))
    ctx.check(not internals, 'async_:queues-through-their-interface', 'no function of the pool touches the internals of a Queue (deque, mutex, counters)', fn,
              fail='%s manipulates the internals of a queue: the task accounting (unfinished_tasks) is bypassed' % (internals[0][0].short if internals else ''))


@rule('C15.j', floor=2)
def c15j(ctx):
    """the call terminates also on a pool that was stopped before: shutdown() queues one stop sentinel for each worker thread that was
    *started* (the list map_each keeps in self.pool), not one per configured thread -- a call with a single item is made directly and
    starts none, and sentinels nobody takes stop the workers of the next call before they do any work"""
    sd = ctx.fn(A + ':ThreadPool.shutdown')
    puts = [x for x in sd.walk() if is_call(x, 'self.task_queue.put') and x.args and const_value(x.args[0], 1) is None]
    if not puts:
        raise Undecided('ThreadPool.shutdown: no sentinel is queued')
    ok = True
    for x in puts:
        loop = enclosing(x, ast.For)
        per_started = loop is not None and contains(sd.canon.expr(loop.iter), lambda y: isinstance(y, ast.Attribute) and unparse(y) == 'self.pool')
        sized = loop is not None and contains(sd.canon.expr(loop.iter), lambda y: isinstance(y, ast.Attribute) and unparse(y) == 'self.pool_size')
        # (counting by pool_size is the same number when it only happens for a pool that was started)
        guarded = sd.cfg.guarded(sd.cfg.node_for(x), lambda at: at.op is None and unparse(at.expr) == 'self.pool', True)
        ok = ok and ((per_started and not sized) or (sized and guarded))
    ctx.check(ok, 'ThreadPool.shutdown:one-sentinel-per-started-thread', 'stop sentinels are queued for the threads in self.pool', sd,
              fail='shutdown() queues stop sentinels by the configured pool size, also when no thread was started (single item): they stay in '
                   'the task queue and stop the workers of the next call, which never returns')
    me = ctx.fn(A + ':ThreadPool.map_each')
    starts = [s for s in me.walk() if isinstance(s, ast.Assign) and unparse(s.targets[0]) == 'self.pool' and is_call(s.value, 'self._init_pool')]
    ctx.check(len(starts) == 1, 'ThreadPool.map_each:keeps-started-threads', 'the started threads are kept in self.pool', me)


@rule('C15.k', floor=3)
def c15k(ctx):
    """one result per input reaches the caller -- also when the caller only wants to know whether all went well: the results of a fan-out
    are collected completely (map / list(imap)) before they are reduced.  `all(pool.imap(..))` / `any(..)` stops pulling at the first
    deciding result: the exceptions of the items after it are never raised, and the call returns while those items still run"""
    n = 0
    for rel, mod in sorted(ctx.repo.modules.items()):
        if '/test/' in rel or not rel.startswith('mapproxy/'):
            continue
        for fn in ctx.repo.fns_in(rel + ':'):
            if '#' in fn.qn:
                continue
            for x in fn.walk():
                if not (isinstance(x, ast.Call) and isinstance(x.func, ast.Name) and x.func.id in ('all', 'any', 'next') and x.args):
                    continue
                a = fn.canon.expr(x.args[0])
                lazy = [y for y in ast.walk(a) if isinstance(y, ast.Call) and (simple_name(y) in ('imap', 'starmap', 'starcall', 'map_each') and
                                                                              not (isinstance(getattr(y, '_parent', None), ast.Call) and
                                                                                   simple_name(getattr(y, '_parent', None)) in ('list', 'tuple')))]
                eager = [y for y in ast.walk(a) if isinstance(y, ast.Call) and isinstance(y.func, ast.Attribute) and y.func.attr == 'map' and
                         'ool' in unparse(fn.canon.expr(y.func.value))]
                if not lazy and not eager:
                    continue
                n += 1
                # (imap written inside a comprehension that all() consumes is lazy as well; a list comprehension is not)
                ok = not lazy or all(_inside_list(y, a) for y in lazy)
                ctx.check(ok, '%s:%s-of-complete-results' % (fn.short, x.func.id), '%s() reduces a completely collected result list' % x.func.id, fn, x,
                          fail='%s(%s) consumes the lazy result iterator of the pool: it stops at the first deciding item, later exceptions are '
                               'swallowed and later items still run when the call returns' % (x.func.id, unparse(x.args[0])[:50]))
    imap = ctx.fn(A + ':ThreadPool.imap')
    mp = ctx.fn(A + ':ThreadPool.map')
    ok = any(is_call(mp.canon.expr(r.value), 'list') and contains(mp.canon.expr(r.value), lambda y: is_call(y, 'self.imap'))
             for r in returns_of(mp.node) if r.value is not None)
    ctx.check(ok, 'ThreadPool.map:collects', 'map() is list(imap()): every result is fetched', mp)
    ctx.check(n >= 1, 'fan-out:reduced-results', '%d reduction(s) over pool results found' % n, imap)


def _inside_list(y, top):
    p = getattr(y, '_parent', None)
    while p is not None:
        if isinstance(p, ast.ListComp):
            return True
        if isinstance(p, ast.Call) and simple_name(p) in ('list', 'tuple', 'sorted'):
            return True
        if p is top:
            break
        p = getattr(p, '_parent', None)
    return False


@rule('C15.l', floor=2)
def c15l(ctx):
    """no result is attributed to another call: a pool that is stopped because an item failed (shutdown(force=True)) throws away what
    is still queued on *both* sides -- the tasks that were not started and the results that were not fetched.  Results left in the
    result queue belong to the call that was stopped; the next call on the same pool would read them first and hand them out as the
    results of its own items 0, 1, .."""
    sd = ctx.fn(A + ':ThreadPool.shutdown')
    g = sd.cfg
    cons = g.find(lambda x: is_call(x, '_consume_queue') and x.args)
    qs = {unparse(x.args[0]) for n, x in cons if g.guarded(n, lambda at: at.op is None and unparse(at.expr) == 'force', True)}
    for q in ('self.task_queue', 'self.result_queue'):
        ctx.check(q in qs, 'ThreadPool.shutdown:force-empties-%s' % q.split('.')[-1], 'a forced shutdown empties %s' % q, sd,
                  fail='shutdown(force=True) leaves %s as it is: what is queued there turns up in the next call on this pool' % q)
