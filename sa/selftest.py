"""Self-test of the checkers: mutants (must be reported, by the expected rule) and
equivalents (must stay silent), applied through the in-memory overlay."""
import json
import os
import sys
import time
from concurrent.futures import ProcessPoolExecutor

sys.path.insert(0, os.path.dirname(os.path.dirname(os.path.abspath(__file__))))

from sa.engine import run_property, load_known, PROPS, VERIF  # noqa: E402
from sa.model import Repo  # noqa: E402

CASES = os.path.join(VERIF, 'selftest', 'cases.json')
_BASE = None


def load_cases():
    with open(CASES) as fh:
        cases = json.load(fh)
    sys.path.insert(0, os.path.join(VERIF, 'selftest'))
    import extra_cases
    for c in cases:
        if c['id'] in extra_cases.OVERRIDES:
            c.update(extra_cases.OVERRIDES[c['id']])
            for k in [k for k, v in c.items() if v is None]:
                del c[k]
    # the three operator batches of the design round re-used ids; a later record with the same edit but a
    # contradicting verdict is a data-entry error of that round: the first record wins
    seen_edit, uniq = {}, []
    for c in cases:
        k = (c['path'], c['find'], c['replace'], c.get('patch'))
        if k in seen_edit:
            continue
        seen_edit[k] = c
        uniq.append(c)
    cases = uniq
    used = set()
    for c in cases:
        base, k = c['id'], 2
        while c['id'] in used:
            c['id'] = '%s~%d' % (base, k)
            k += 1
        used.add(c['id'])
    ids = {c['id'] for c in cases}
    # seeded changes written by independent sub-agents (kept under /verif/seeded/<id>/)
    seeded = os.path.join(VERIF, 'seeded')
    if os.path.isdir(seeded):
        for sid in sorted(os.listdir(seeded)):
            mp = os.path.join(seeded, sid, 'meta.json')
            if not os.path.exists(mp):
                continue
            with open(mp) as fh:
                meta = json.load(fh)
            c = {'id': 'SEED-' + sid, 'patch': 'seeded/%s/patch.diff' % sid, 'path': ', '.join(meta.get('files_changed') or [])[:60],
                 'find': '', 'replace': '', 'props': [meta['property']], 'origin': 'seeded change (sub-agent)',
                 'expect': meta.get('selftest_expect', 'report')}
            cases.append(c)
            ids.add(c['id'])
    # behaviour-preserving refactorings written by independent sub-agents: every check must stay silent on them
    rfd = os.path.join(VERIF, 'refactorings')
    if os.path.isdir(rfd):
        for rid in sorted(os.listdir(rfd)):
            pf = os.path.join(rfd, rid, 'patch.diff')
            if not os.path.exists(pf):
                continue
            text = open(pf, encoding='utf-8').read()
            import re
            files = sorted(set(re.findall(r'^\+\+\+ b/(\S+)', text, re.M)))
            c = {'id': 'RF-' + rid, 'patch': 'refactorings/%s/patch.diff' % rid, 'path': ', '.join(files)[:60], 'find': '', 'replace': '',
                 'origin': 'behaviour-preserving refactoring (sub-agent)', 'expect': 'silent'}
            cases.append(c)
            ids.add(c['id'])
    for c in extra_cases.EXTRA:
        if c['id'] in ids:
            raise ValueError('duplicate self-test id %s' % c['id'])
        ids.add(c['id'])
        cases.append(c)
    return cases


def armed_props():
    out = []
    for p in PROPS:
        if os.path.exists(os.path.join(VERIF, 'sa', 'rules', p.lower() + '.py')):
            out.append(p)
    return out


def _apply_patch(root, patch_file):
    """apply a unified diff to copies of the touched files (temporary directory) -> overlay dict"""
    import re
    import shutil
    import subprocess
    import tempfile
    text = open(patch_file, encoding='utf-8').read()
    files = sorted(set(re.findall(r'^\+\+\+ b/(\S+)', text, re.M)) | set(re.findall(r'^--- a/(\S+)', text, re.M)))
    tmp = tempfile.mkdtemp(prefix='sa_selftest_')
    try:
        for rel in files:
            src = os.path.join(root, rel)
            dst = os.path.join(tmp, rel)
            os.makedirs(os.path.dirname(dst), exist_ok=True)
            if os.path.exists(src):
                shutil.copy(src, dst)
        r = subprocess.run(['patch', '-p1', '-s', '-f', '-d', tmp, '-i', patch_file], capture_output=True, text=True)
        if r.returncode != 0:
            return None, 'patch does not apply: %s' % (r.stdout + r.stderr)[-200:]
        overlay = {}
        for rel in files:
            dst = os.path.join(tmp, rel)
            if os.path.exists(dst):
                overlay[rel] = open(dst, encoding='utf-8').read()
        return overlay, None
    finally:
        shutil.rmtree(tmp, ignore_errors=True)


def _apply(root, case):
    """-> overlay dict or (None, reason)"""
    if case.get('patch'):
        return _apply_patch(root, os.path.join(VERIF, case['patch']))
    overlay = {}
    edits = case.get('edits') or [case]
    for e in edits:
        path = os.path.join(root, e['path'])
        if not os.path.exists(path):
            return None, 'file missing: %s' % e['path']
        src = overlay.get(e['path'])
        if src is None:
            with open(path, encoding='utf-8') as fh:
                src = fh.read()
        n = src.count(e['find'])
        if n != 1:
            return None, 'find string occurs %d times in %s' % (n, e['path'])
        overlay[e['path']] = src.replace(e['find'], e['replace'])
    return overlay, None


def run_case(args):
    root, case = args
    global _BASE
    if _BASE is None or _BASE.root != root:
        _BASE = Repo(root)
    overlay, why = _apply(root, case)
    res = {'id': case['id'], 'expect': case['expect'], 'rule': case.get('rule')}
    if overlay is None:
        res['result'] = 'STALE'
        res['why'] = why
        return res
    try:
        repo = Repo(root, overlay, base=_BASE)
    except SyntaxError as ex:
        res['result'] = 'STALE'
        res['why'] = 'mutant does not parse: %s' % ex
        return res
    findings, _ = load_known()
    armed = armed_props()
    props = case.get('props') or armed
    reported, errors = [], []
    for p in props:
        if p not in armed:
            continue
        ctx = run_property(repo, p)
        for o in ctx.obs:
            if o.status == 'violation' and (p, o.key) not in findings:
                reported.append(o.key)
        errors += ['%s: %s' % e for e in ctx.errors]
    res['reported'] = sorted(set(reported))
    res['errors'] = errors
    want = case['expect']
    if want == 'report':
        rule = case.get('rule')
        hit = [k for k in reported if not rule or any(k.startswith(r.strip()) for r in rule.split('|'))]
        if hit:
            res['result'] = 'PASS'
        elif reported:
            res['result'] = 'PASS-OTHER-RULE'
        elif errors:
            res['result'] = 'MISS-ERROR'
        else:
            res['result'] = 'MISS'
    elif want == 'silent':
        res['result'] = 'PASS' if not reported and not errors else ('FALSE-ALARM' if reported else 'ERROR')
    else:
        res['result'] = 'INFO-REPORTED' if reported else 'INFO-SILENT'
    return res


def run_all(root='/repo', only=None, jobs=None, props=None):
    cases = load_cases()
    if only:
        cases = [c for c in cases if any(s in c['id'] for s in only)]
    if props:
        cases = [c for c in cases if not c.get('props') or set(c['props']) & set(props)]
    jobs = jobs or min(16, os.cpu_count() or 4)
    t0 = time.time()
    if jobs > 1 and len(cases) > 4:
        with ProcessPoolExecutor(jobs) as ex:
            results = list(ex.map(run_case, [(root, c) for c in cases], chunksize=4))
    else:
        results = [run_case((root, c)) for c in cases]
    return results, time.time() - t0


def report_for(ctx):
    """thorough tier: record checker sensitivity for this property in the evidence notes"""
    prop = ctx.prop
    cases = [c for c in load_cases() if c.get('props') == [prop] or (c['expect'] == 'silent' and not c.get('props'))]
    results = []
    with ProcessPoolExecutor(min(16, os.cpu_count() or 4)) as ex:
        tasks = []
        for c in cases:
            c2 = dict(c)
            c2['props'] = [prop]
            tasks.append((ctx.repo.root, c2))
        results = list(ex.map(run_case, tasks, chunksize=4))
    counts = {}
    for r in results:
        counts[r['result']] = counts.get(r['result'], 0) + 1
    ctx.info.append('checker_sensitivity %s: %d self-test cases %s' % (prop, len(results), json.dumps(counts, sort_keys=True)))
    for r in results:
        if r['result'] in ('MISS', 'FALSE-ALARM', 'MISS-ERROR', 'ERROR'):
            ctx.info.append('SELFTEST-%s %s %s' % (r['result'], r['id'], r.get('reported') or r.get('errors')))
        elif r['result'] == 'STALE':
            ctx.info.append('SELFTEST-STALE %s %s' % (r['id'], r.get('why')))
    print('checker_sensitivity %s: %s' % (prop, json.dumps(counts, sort_keys=True)))


def main():
    import argparse
    ap = argparse.ArgumentParser()
    ap.add_argument('--repo', default='/repo')
    ap.add_argument('--only', nargs='*')
    ap.add_argument('--props', nargs='*')
    ap.add_argument('-j', type=int, default=None)
    ap.add_argument('-v', action='store_true')
    ap.add_argument('--catalogue', default=None, help='write a markdown table: case -> verdict -> reporting rule instances')
    args = ap.parse_args()
    results, wall = run_all(args.repo, args.only, args.j, args.props)
    counts = {}
    for r in results:
        counts[r['result']] = counts.get(r['result'], 0) + 1
        if args.v or r['result'] not in ('PASS', 'INFO-SILENT', 'INFO-REPORTED'):
            print('%-16s %-44s expect=%s rule=%s reported=%s %s %s' % (
                r['result'], r['id'], r['expect'], r.get('rule'), r.get('reported'), r.get('why') or '',
                r.get('errors') or ''))
    print('selftest: %d cases in %.1fs: %s' % (len(results), wall, json.dumps(counts, sort_keys=True)))
    if args.catalogue:
        cases = {c['id']: c for c in load_cases()}
        with open(args.catalogue, 'w') as fh:
            fh.write('# Self-test catalogue (generated by `sa/selftest.py --catalogue`)\n\n')
            fh.write('%d cases: %s\n\n' % (len(results), json.dumps(counts, sort_keys=True)))
            fh.write('Mutants (must be reported) and the rule instances that report them; equivalents (must stay silent).\n\n')
            fh.write('| case | file | expect | result | reported by |\n|---|---|---|---|---|\n')
            for r in sorted(results, key=lambda r: (r['expect'] != 'report', r['id'])):
                c = cases.get(r['id'], {})
                rep = ', '.join('`%s`' % k for k in (r.get('reported') or [])[:4])
                fh.write('| %s | %s | %s | %s | %s |\n' % (r['id'], c.get('path', ''), r['expect'], r['result'], rep))
    bad = sum(v for k, v in counts.items() if k in ('MISS', 'FALSE-ALARM', 'MISS-ERROR', 'ERROR'))
    return 1 if bad else 0


if __name__ == '__main__':
    sys.exit(main())
