"""Rule context, obligations, known findings, evidence, verdicts."""
import importlib
import json
import os
import time
import traceback

from .model import Repo, AnchorMissing, Undecided, Fn

VERIF = os.path.dirname(os.path.dirname(os.path.abspath(__file__)))
KNOWN = os.path.join(VERIF, 'known_findings.txt')
EVIDENCE = os.path.join(VERIF, 'evidence')

PROPS = ['C%02d' % i for i in range(1, 21)]


class Ob:
    __slots__ = ('rule', 'construct', 'status', 'msg', 'where', 'detail')

    def __init__(self, rule, construct, status, msg, where, detail=None):
        self.rule, self.construct, self.status, self.msg, self.where, self.detail = \
            rule, construct, status, msg, where, detail

    @property
    def key(self):
        return '%s:%s' % (self.rule, self.construct)

    def as_dict(self):
        d = {'rule': self.rule, 'construct': self.construct, 'verdict': self.status, 'what': self.msg,
             'where': self.where}
        if self.detail:
            d['detail'] = self.detail
        return d


class Ctx:
    def __init__(self, repo, prop, tier='quick'):
        self.repo, self.prop, self.tier = repo, prop, tier
        self.obs = []
        self.errors = []        # (rule, message) analysis errors
        self.stats = {'functions': set(), 'table_rows': 0, 'call_sites': 0, 'resolved_calls': 0,
                      'unresolved_calls': 0}
        self.rules_run = []
        self._seen = set()
        self.info = []
        self._rule = None

    @property
    def thorough(self):
        return self.tier == 'thorough'

    def _where(self, where, node=None):
        if isinstance(where, Fn):
            self.stats['functions'].add(where.qn)
            return where.where(node)
        if isinstance(where, tuple):
            return '%s:%s' % where
        return str(where)

    def _add(self, ob):
        k = (ob.rule, ob.construct, ob.status, ob.msg, ob.where)
        if k in self._seen:
            return
        self._seen.add(k)
        self.obs.append(ob)

    def ok(self, construct, msg, where, node=None, rule=None):
        self._add(Ob(rule or self._rule, construct, 'ok', msg, self._where(where, node)))

    def bad(self, construct, msg, where, node=None, detail=None, rule=None):
        self._add(Ob(rule or self._rule, construct, 'violation', msg, self._where(where, node), detail))

    def check(self, cond, construct, what, where, node=None, fail=None, detail=None, rule=None):
        """one obligation: `what` states the fact that must hold"""
        if cond:
            self.ok(construct, what, where, node, rule)
        else:
            self.bad(construct, fail or ('NOT: ' + what), where, node, detail, rule)
        return bool(cond)

    def note(self, msg):
        self.info.append('%s %s' % (self._rule or '', msg))

    def fn(self, qn):
        f = self.repo.fn(qn)
        self.stats['functions'].add(f.qn)
        return f

    def rows(self, tab):
        self.stats['table_rows'] += len(tab.rows)
        return tab


def rule(rid, floor=1, tier='quick'):
    """decorator: registers a rule function rule(ctx); floor = minimum number of
    obligations it must produce (a rule matching nothing never passes)."""
    def deco(f):
        f.rule_id, f.floor, f.tier = rid, floor, tier
        return f
    return deco


def explanation(mod, rules):
    """module docstring + the docstrings of the rules it does not mention yet (rules added after the docstring was written)"""
    doc = ' '.join((getattr(mod, 'EXPLANATION', None) or mod.__doc__ or '').split())
    extra = []
    for r in rules:
        if ('%s ' % r.rule_id) in doc or ('%s)' % r.rule_id) in doc or ('%s,' % r.rule_id) in doc or ('%s:' % r.rule_id) in doc or ('%s.' % r.rule_id) in doc:
            continue
        d = ' '.join((r.__doc__ or '').split())
        if d:
            extra.append('%s: %s' % (r.rule_id, d))
    if extra:
        doc += ' Further rules -- ' + '; '.join(extra) + '.'
    return doc


def load_rules(prop):
    mod = importlib.import_module('sa.rules.%s' % prop.lower())
    rules = [v for v in vars(mod).values() if callable(v) and hasattr(v, 'rule_id')]
    rules.sort(key=lambda r: r.rule_id)
    return mod, rules


def run_property(repo, prop, tier='quick', only=None):
    ctx = Ctx(repo, prop, tier)
    mod, rules = load_rules(prop)
    for r in rules:
        if only and r.rule_id not in only:
            continue
        if r.tier == 'thorough' and tier != 'thorough':
            continue
        ctx._rule = r.rule_id
        before = len(ctx.obs)
        try:
            r(ctx)
        except AnchorMissing as ex:
            ctx.errors.append((r.rule_id, 'anchor missing: %s' % ex))
            continue
        except Undecided as ex:
            ctx.errors.append((r.rule_id, 'undecided: %s' % ex))
            continue
        except Exception as ex:   # never let a traceback look like a violation
            ctx.errors.append((r.rule_id, 'internal error: %s: %s | %s' % (
                type(ex).__name__, ex, traceback.format_exc().strip().splitlines()[-3:])))
            continue
        produced = len(ctx.obs) - before
        ctx.rules_run.append((r.rule_id, produced))
        if produced < r.floor:
            ctx.errors.append((r.rule_id, 'instance floor: rule produced %d obligations, at least %d were '
                               'confirmed by hand on the reference tree' % (produced, r.floor)))
    ctx._rule = None
    return ctx


# ------------------------------------------------------------- known findings

def share(ctx, prop, rules, keep=None):
    """re-evaluate rules of another property inside a rule of this one (a shared rule): their obligations are reported under the
    sharing rule as `<rule>:<construct>`; keep(observation) -> bool selects the obligations that matter here"""
    from .model import Undecided
    sub = run_property(ctx.repo, prop, ctx.tier, only=set(rules))
    for e in sub.errors:
        raise Undecided('shared rule %s: %s' % e)
    n = 0
    for o in sub.obs:
        if keep is not None and not keep(o):
            continue
        n += 1
        if o.status == 'ok':
            ctx.ok('%s:%s' % (o.rule, o.construct), o.msg, o.where)
        else:
            ctx.bad('%s:%s' % (o.rule, o.construct), o.msg, o.where)
    ctx.stats['functions'] |= sub.stats['functions']
    return n


def load_known(path=KNOWN):
    findings, fixed = {}, []
    if not os.path.exists(path):
        return findings, fixed
    with open(path, encoding='utf-8') as fh:
        for line in fh:
            line = line.strip()
            if not line or line.startswith('#'):
                continue
            if line.startswith('finding:'):
                parts = line[len('finding:'):].split(None, 2)
                kv = dict(p.split('=', 1) for p in parts[:2] if '=' in p)
                findings[(kv.get('property'), kv.get('key'))] = parts[2] if len(parts) > 2 else ''
            elif line.startswith('fixed:'):
                fixed.append(line)
    return findings, fixed


# ------------------------------------------------------------------- verdicts

def summarize(ctx, wall, seed=0, write=True, out=print):
    findings, fixed = load_known()
    viol = [o for o in ctx.obs if o.status == 'violation']
    known, new = [], []
    for o in viol:
        if (ctx.prop, o.key) in findings:
            known.append(o)
        else:
            new.append(o)
    ok = [o for o in ctx.obs if o.status == 'ok']
    for o in known:
        out('KNOWN-FINDING: property=%s %s %s -- %s' % (ctx.prop, o.key, o.where, o.msg))
    replay = os.path.join(EVIDENCE, '%s.replay.json' % ctx.prop)
    code = 0
    if ctx.errors:
        code = 2
        for r, msg in ctx.errors:
            out('ANALYSIS-ERROR property=%s rule=%s %s' % (ctx.prop, r, msg))
    if new:
        code = 1
        out('VIOLATION property=%s replay=%s' % (ctx.prop, replay))
        for o in new:
            out('  %s %s: %s' % (o.key, o.where, o.msg))
            if o.detail:
                out('      %s' % o.detail)
    if write:
        os.makedirs(EVIDENCE, exist_ok=True)
        if new:
            with open(replay, 'w') as fh:
                json.dump({'property': ctx.prop, 'tier': ctx.tier, 'root': ctx.repo.root,
                           'violations': [o.as_dict() for o in new],
                           'rules': sorted({o.rule for o in new})}, fh, indent=1)
        elif os.path.exists(replay):
            os.remove(replay)
        write_evidence(ctx, wall, seed, ok, known, new)
    out('%s %s: %d rules, %d obligations, %d discharged, %d known finding(s), %d violation(s), %d analysis error(s), '
        '%d functions, %.2fs' % (ctx.prop, ctx.tier, len(ctx.rules_run), len(ctx.obs), len(ok), len(known), len(new),
                                 len(ctx.errors), len(ctx.stats['functions']), wall))
    return code


def write_evidence(ctx, wall, seed, ok, known, new):
    mod, rules = load_rules(ctx.prop)
    constructs = {o.construct for o in ctx.obs}
    per_rule = {}
    for o in ctx.obs:
        per_rule.setdefault(o.rule, [0, 0])
        per_rule[o.rule][0] += 1
        per_rule[o.rule][1] += o.status == 'ok'
    samples = []
    seen_rules = set()
    for o in ctx.obs:
        if o.rule not in seen_rules or o.status != 'ok':
            seen_rules.add(o.rule)
            samples.append(o.as_dict())
    doc = explanation(mod, rules)
    ev = {
        'property_id': ctx.prop,
        'tier': ctx.tier,
        'seed': seed,
        'level': 'other',
        'coverage': {
            'explanation': ' '.join(doc.split()),
            'rule': 'one obligation per (rule, construct): a structural fact read from the syntax tree / CFG / '
                    'def-use of /repo that is a necessary condition of the property; distinct_nontrivial counts '
                    'distinct constructs (functions, call sites, templates, table rows are counted separately) '
                    'with at least one obligation',
            'obligations': len(ctx.obs),
            'discharged': len(ok),
            'known_findings': len(known),
            'evaluations': len(ctx.obs),
            'distinct_nontrivial': len(constructs),
            'rules': {r: {'obligations': a, 'discharged': b} for r, (a, b) in sorted(per_rule.items())},
            'rules_armed': [r.rule_id for r in rules if not (r.tier == 'thorough' and ctx.tier != 'thorough')],
            'functions_analysed': len(ctx.stats['functions']),
            'function_names': sorted(ctx.stats['functions'])[:400],
            'decision_table_rows': ctx.stats['table_rows'],
            'modules_parsed': len(ctx.repo.modules),
            'functions_indexed': len(ctx.repo.funcs),
            'templates_parsed': len(ctx.repo.templates),
            'samples': samples[:80],
            'notes': ctx.info[:60],
            'checker_cmd': '/venv/bin/python /verif/sa/check.py %s --tier %s' % (ctx.prop, ctx.tier),
            'trusted_base': ['CPython 3.12 ast module', 'name-based call/receiver resolution (no monkey patching, '
                             'no third-party plugins)', 'os/fcntl/sqlite3/html.escape behave as documented',
                             'instance tables and expected formulas in /verif/sa/rules/%s.py' % ctx.prop.lower()],
            'exhaustive': False,
            'analysis_errors': ['%s: %s' % e for e in ctx.errors],
            'repo_root': ctx.repo.root,
        },
        'assumptions': list(getattr(mod, 'ASSUMPTIONS', [])) + [
            'decides necessary structural conditions only; the runtime behaviour listed under NOT_DECIDED in the '
            'rule module is outside this technique',
            'configuration values are trusted; dynamic attribute injection by plugins is out of scope'],
        'not_decided': getattr(mod, 'NOT_DECIDED', ''),
        'wall_s': round(wall, 3),
        'violations': len(new),
    }
    with open(os.path.join(EVIDENCE, '%s.json' % ctx.prop), 'w') as fh:
        json.dump(ev, fh, indent=1)
