"""Specialisation of a function for concrete values of some of its inputs (partial evaluation by constant folding).

`specialise(fn_node, {"tile_request.origin": 'nw'}, tables)` returns a copy of the function in which every read of the named
expressions is the given constant and everything that follows from constants alone is folded away: comparisons between constants,
membership in literal tuples, `TABLE.get(<const>)` / `TABLE[<const>]` on a literal dictionary, `<literal> is None`, and / or / not /
conditional expressions with constant operands, `if` statements with constant tests, and locals that are assigned one literal.
Nothing of the repository is executed: the folder knows the meaning of these few operators on literals and leaves everything else
as it is.  A dispatch written as an if-chain, as a dictionary lookup or through a named intermediate all specialise to the same
residual code, which the decision tables and closed forms then analyse."""
import ast

from .model import _copy_tree

_MISSING = object()


def _lit(e):
    """python value of a literal expression (constants, tuples / lists / sets / dicts of literals) or _MISSING"""
    if isinstance(e, ast.Constant):
        return e.value
    if isinstance(e, (ast.Tuple, ast.List)):
        vals = [_lit(x) for x in e.elts]
        return _MISSING if any(v is _MISSING for v in vals) else tuple(vals)
    if isinstance(e, ast.Set):
        vals = [_lit(x) for x in e.elts]
        return _MISSING if any(v is _MISSING for v in vals) else frozenset(vals)
    return _MISSING


def _is_literal_container(e):
    return isinstance(e, (ast.Tuple, ast.List, ast.Set, ast.Dict))


def _const(v, like):
    return ast.copy_location(ast.Constant(value=v), like)


class _Fold(ast.NodeTransformer):
    def __init__(self, bindings, tables, shadow=()):
        self.bindings = bindings          # expression text -> python constant
        self.tables = tables              # name / '.attr' -> ast.Dict | ast.Tuple ...
        self.shadow = set(shadow)         # local names of the function (they hide module level names)
        self.changed = False

    # ---- leaves
    def _bound(self, node):
        if isinstance(getattr(node, 'ctx', None), ast.Load):
            try:
                t = ast.unparse(node)
            except Exception:       # noqa
                return None
            if t in self.bindings:
                self.changed = True
                return _const(self.bindings[t], node)
        return None

    def visit_Name(self, node):
        b = self._bound(node)
        if b is not None:
            return b
        # a module / class level literal tuple that is merely named
        if isinstance(node.ctx, ast.Load) and node.id not in self.shadow and isinstance(self.tables.get(node.id), (ast.Tuple, ast.List)) and \
                _lit(self.tables[node.id]) is not _MISSING:
            self.changed = True
            return _copy_tree(self.tables[node.id])
        return node

    def visit_Attribute(self, node):
        b = self._bound(node)
        if b is not None:
            return b
        # a class level literal tuple read through self / cls (assigned nowhere else in the module)
        if isinstance(node.ctx, ast.Load) and isinstance(node.value, ast.Name) and node.value.id in ('self', 'cls') and \
                isinstance(self.tables.get('.' + node.attr), (ast.Tuple, ast.List)) and _lit(self.tables['.' + node.attr]) is not _MISSING:
            self.changed = True
            return _copy_tree(self.tables['.' + node.attr])
        self.generic_visit(node)
        return node

    def _table(self, e):
        if isinstance(e, ast.Dict):
            return e
        if isinstance(e, ast.Name) and isinstance(self.tables.get(e.id), ast.Dict):
            return self.tables[e.id]
        if isinstance(e, ast.Attribute) and isinstance(e.value, ast.Name) and e.value.id in ('self', 'cls') and isinstance(self.tables.get('.' + e.attr), ast.Dict):
            return self.tables['.' + e.attr]
        return None

    def _lookup(self, d, key):
        """value expression of literal dict d for constant key, None node if absent, _MISSING if undecidable"""
        hit = None
        for k, v in zip(d.keys, d.values):
            if k is None:
                return _MISSING
            kv = _lit(k)
            if kv is _MISSING:
                return _MISSING
            if kv == key and type(kv) is type(key) or (kv is None and key is None):
                hit = v
        return hit

    # ---- operators
    def visit_Compare(self, node):
        self.generic_visit(node)
        if len(node.ops) != 1:
            return node
        l, op, r = node.left, node.ops[0], node.comparators[0]
        lv, rv = _lit(l), _lit(r)
        res = _MISSING
        if isinstance(op, (ast.Is, ast.IsNot)):
            # `<literal container> is None`, `<const> is None`
            if isinstance(r, ast.Constant) and r.value is None:
                if isinstance(l, ast.Constant):
                    res = l.value is None
                elif _is_literal_container(l) or isinstance(l, (ast.JoinedStr, ast.Lambda, ast.ListComp, ast.DictComp)):
                    res = False
            if res is not _MISSING and isinstance(op, ast.IsNot):
                res = not res
        elif lv is not _MISSING and rv is not _MISSING:
            try:
                if isinstance(op, ast.Eq):
                    res = lv == rv
                elif isinstance(op, ast.NotEq):
                    res = lv != rv
                elif isinstance(op, ast.In) and isinstance(rv, (tuple, frozenset, str)):
                    res = lv in rv
                elif isinstance(op, ast.NotIn) and isinstance(rv, (tuple, frozenset, str)):
                    res = lv not in rv
            except TypeError:
                res = _MISSING
        elif lv is not _MISSING and isinstance(op, (ast.In, ast.NotIn)) and self._table(r) is not None:
            hit = self._lookup(self._table(r), lv)
            if hit is not _MISSING:
                res = (hit is not None) == isinstance(op, ast.In)
        if res is _MISSING:
            return node
        self.changed = True
        return _const(bool(res), node)

    def visit_UnaryOp(self, node):
        self.generic_visit(node)
        if isinstance(node.op, ast.Not):
            v = _truth(node.operand)
            if v is not None:
                self.changed = True
                return _const(not v, node)
        return node

    def visit_BoolOp(self, node):
        self.generic_visit(node)
        is_and = isinstance(node.op, ast.And)
        vals = []
        for v in node.values:
            t = _truth(v)
            if t is None:
                vals.append(v)
            elif t == is_and:
                # neutral element: drop (its value is only returned if it is the last operand)
                if v is node.values[-1] and not vals:
                    vals.append(v)
                elif v is node.values[-1]:
                    vals.append(v) if not _in_test(node) else None
                continue
            else:
                vals.append(v)      # decides the expression: everything after it is not evaluated
                break
        if len(vals) != len(node.values):
            self.changed = True
        if not vals:
            return _const(is_and, node)
        if len(vals) == 1:
            return vals[0]
        node.values = vals
        return node

    def visit_IfExp(self, node):
        self.generic_visit(node)
        t = _truth(node.test)
        if t is None:
            return node
        self.changed = True
        return node.body if t else node.orelse

    def visit_Call(self, node):
        try:
            t = ast.unparse(node)
        except Exception:       # noqa
            t = None
        if t is not None and t in self.bindings:
            self.changed = True
            return _const(self.bindings[t], node)
        self.generic_visit(node)
        f = node.func
        if isinstance(f, ast.Attribute) and f.attr == 'get' and 1 <= len(node.args) <= 2 and not node.keywords:
            d = self._table(f.value)
            key = _lit(node.args[0])
            if d is not None and key is not _MISSING:
                hit = self._lookup(d, key)
                if hit is not _MISSING:
                    self.changed = True
                    if hit is not None:
                        return _copy_tree(hit)
                    return node.args[1] if len(node.args) == 2 else _const(None, node)
        if isinstance(f, ast.Name) and f.id == 'bool' and len(node.args) == 1 and not node.keywords:
            t = _truth(node.args[0])
            if t is not None:
                self.changed = True
                return _const(t, node)
        if isinstance(f, ast.Attribute) and f.attr in ('lower', 'upper') and not node.args and isinstance(f.value, ast.Constant) and isinstance(f.value.value, str):
            self.changed = True
            return _const(getattr(f.value.value, f.attr)(), node)
        # side-effect free string methods / POSIX path functions of literal arguments: evaluated
        args = [a.value for a in node.args] if all(isinstance(a, ast.Constant) and type(a.value) in (str, int, bool, type(None)) for a in node.args) and \
            not node.keywords else None
        if args is not None and isinstance(f, ast.Attribute) and isinstance(f.value, ast.Constant) and isinstance(f.value.value, str) and \
                f.attr in ('startswith', 'endswith', 'strip', 'lstrip', 'rstrip', 'replace', 'isdigit', 'count', 'find'):
            try:
                v = getattr(f.value.value, f.attr)(*args)
            except Exception:       # noqa
                return node
            self.changed = True
            return _const(v, node)
        if args is not None and args and all(isinstance(a, str) for a in args):
            try:
                d = ast.unparse(f)
            except Exception:       # noqa
                d = ''
            if d in ('os.path.dirname', 'os.path.basename', 'os.path.isabs', 'os.path.join', 'os.path.normpath', 'os.path.splitext'):
                import posixpath
                v = getattr(posixpath, d.rsplit('.', 1)[1])(*args)
                if isinstance(v, (str, bool)):
                    self.changed = True
                    return _const(v, node)
        return node

    def visit_BinOp(self, node):
        self.generic_visit(node)
        if isinstance(node.op, ast.Add) and isinstance(node.left, ast.Constant) and isinstance(node.right, ast.Constant) and \
                isinstance(node.left.value, str) and isinstance(node.right.value, str):
            self.changed = True
            return _const(node.left.value + node.right.value, node)
        return node

    def visit_Subscript(self, node):
        self.generic_visit(node)
        if isinstance(node.ctx, ast.Load):
            d = self._table(node.value)
            key = _lit(node.slice)
            if d is not None and key is not _MISSING:
                hit = self._lookup(d, key)
                if hit is not _MISSING and hit is not None:
                    self.changed = True
                    return _copy_tree(hit)
            if isinstance(node.value, (ast.Tuple, ast.List)) and isinstance(key, int) and not isinstance(key, bool) and \
                    -len(node.value.elts) <= key < len(node.value.elts) and not any(isinstance(x, ast.Starred) for x in node.value.elts):
                self.changed = True
                return node.value.elts[key]
        return node


def _in_test(node):
    return getattr(node, '_test_pos', False)


def _truth(e):
    """truth value of an expression that is decided syntactically, else None"""
    if isinstance(e, ast.Constant):
        return bool(e.value)
    if isinstance(e, (ast.Tuple, ast.List, ast.Set)):
        return bool(e.elts)
    if isinstance(e, ast.Dict):
        return bool(e.keys)
    return None


def _prune(body):
    """if statements with constant tests -> the branch that runs"""
    out = []
    changed = False
    for st in body:
        for fld in ('body', 'orelse', 'finalbody'):
            blk = getattr(st, fld, None)
            if isinstance(blk, list) and blk and isinstance(blk[0], ast.stmt) and not isinstance(st, (ast.FunctionDef, ast.AsyncFunctionDef, ast.ClassDef)):
                new, ch = _prune(blk)
                changed = changed or ch
                setattr(st, fld, new)
        for h in getattr(st, 'handlers', []) or []:
            h.body, ch = _prune(h.body)
            changed = changed or ch
            if not h.body:
                h.body = [ast.copy_location(ast.Pass(), h)]
        if isinstance(st, ast.If):
            t = _truth(st.test)
            if t is not None:
                out.extend(st.body if t else st.orelse)
                changed = True
                continue
        if isinstance(st, ast.While) and _truth(st.test) is False:
            out.extend(st.orelse)
            changed = True
            continue
        out.append(st)
        if isinstance(st, (ast.Return, ast.Raise, ast.Continue, ast.Break)):
            if len(out) < len(body):
                changed = changed or (st is not body[-1])
            break
    return out, changed


def _literal_locals(fn):
    """locals assigned exactly once, by `name = <literal>` (constants, literal tuples ...)"""
    stores, vals = {}, {}
    params = {a.arg for a in ast.walk(fn.args) if isinstance(a, ast.arg)}
    for n in ast.walk(fn):
        if isinstance(n, ast.Name) and isinstance(n.ctx, (ast.Store, ast.Del)):
            stores[n.id] = stores.get(n.id, 0) + 1
        elif isinstance(n, (ast.Global, ast.Nonlocal)):
            for nm in n.names:
                stores[nm] = 99
        elif isinstance(n, ast.ExceptHandler) and n.name:
            stores[n.name] = 99
    for n in ast.walk(fn):
        if isinstance(n, ast.Assign) and len(n.targets) == 1 and isinstance(n.targets[0], ast.Name):
            nm = n.targets[0].id
            if stores.get(nm) == 1 and nm not in params and (_lit(n.value) is not _MISSING or isinstance(n.value, ast.Dict)):
                vals[nm] = n
    return vals


class _Env(ast.NodeTransformer):
    """reads of names / attribute chains whose current value is a known literal"""

    def __init__(self, env):
        self.env = env
        self.hit = False

    def _sub(self, node):
        if isinstance(getattr(node, 'ctx', None), ast.Load):
            try:
                t = ast.unparse(node)
            except Exception:       # noqa
                return None
            if t in self.env:
                self.hit = True
                return _copy_tree(self.env[t])
        return None

    def visit_Name(self, node):
        return self._sub(node) or node

    def visit_Attribute(self, node):
        r = self._sub(node)
        if r is not None:
            return r
        self.generic_visit(node)
        return node

    def visit_Lambda(self, node):
        return node


def _is_literal(e):
    return _lit(e) is not _MISSING


def _target_text(t):
    if isinstance(t, (ast.Name, ast.Attribute)):
        try:
            return ast.unparse(t)
        except Exception:       # noqa
            return None
    return None


def _kill(env, text):
    for k in list(env):
        if k == text or k.startswith(text + '.') or text.startswith(k + '.'):
            del env[k]


def _stored_texts(stmts):
    out = set()
    for s_ in stmts:
        for n in ast.walk(s_):
            if isinstance(n, (ast.Name, ast.Attribute)) and isinstance(getattr(n, 'ctx', None), (ast.Store, ast.Del)):
                t = _target_text(n)
                if t:
                    out.add(t)
    return out


def propagate(body, env, fold):
    """flow-sensitive propagation of literals through a statement list (in place): names and attribute chains that were just assigned a
    literal are read as that literal until they are assigned something else; `fold(expr) -> expr` folds constants.  Branches are
    processed with copies of the environment and merged (only what both agree on survives); loop bodies start from what the loop does
    not assign.  Calls are assumed not to change the tracked attributes (the analysis-wide assumption).  -> True if anything changed"""
    changed = False

    def ev(e):
        nonlocal changed
        if e is None:
            return e
        t = _Env(env)
        e2 = t.visit(e)
        if t.hit:
            changed = True
        return fold(e2)
    for st in body:
        if isinstance(st, ast.Assign):
            st.value = ev(st.value)
            for tg in st.targets:
                txt = _target_text(tg)
                if txt is not None:
                    _kill(env, txt)
                    if len(st.targets) == 1 and _is_literal(st.value):
                        env[txt] = st.value
                else:
                    for x in ast.walk(tg):
                        tx = _target_text(x)
                        if tx:
                            _kill(env, tx)
        elif isinstance(st, (ast.AugAssign, ast.AnnAssign)):
            if st.value is not None:
                st.value = ev(st.value)
            txt = _target_text(st.target)
            if txt:
                _kill(env, txt)
        elif isinstance(st, (ast.Expr, ast.Return)):
            if st.value is not None:
                st.value = ev(st.value)
        elif isinstance(st, ast.If):
            st.test = ev(st.test)
            e1, e2 = dict(env), dict(env)
            c1 = propagate(st.body, e1, fold)
            c2 = propagate(st.orelse, e2, fold)
            changed = changed or c1 or c2
            t = _truth(st.test)
            ends1 = bool(st.body) and isinstance(st.body[-1], (ast.Return, ast.Raise, ast.Continue, ast.Break))
            ends2 = bool(st.orelse) and isinstance(st.orelse[-1], (ast.Return, ast.Raise, ast.Continue, ast.Break))
            if t is True or ends2:
                new = e1
            elif t is False or ends1:
                new = e2
            else:
                new = {k: v for k, v in e1.items() if k in e2 and ast.dump(e2[k]) == ast.dump(v)}
            if ends1 and ends2:
                new = {}
            env.clear()
            env.update(new)
        elif isinstance(st, (ast.For, ast.While, ast.AsyncFor)):
            for t in _stored_texts([st]):
                _kill(env, t)
            if isinstance(st, ast.While):
                pass            # the test is re-evaluated with values of later iterations: left as it is
            else:
                st.iter = ev(st.iter)
            inner = dict(env)
            changed = propagate(st.body, inner, fold) or changed
            propagate(st.orelse, dict(env), fold)
        elif isinstance(st, (ast.With, ast.AsyncWith)):
            for it in st.items:
                it.context_expr = ev(it.context_expr)
                if it.optional_vars is not None:
                    for x in ast.walk(it.optional_vars):
                        tx = _target_text(x)
                        if tx:
                            _kill(env, tx)
            changed = propagate(st.body, env, fold) or changed
        elif isinstance(st, ast.Try):
            for t in _stored_texts(st.body):
                pass
            before = dict(env)
            changed = propagate(st.body, env, fold) or changed
            changed = propagate(st.orelse, env, fold) or changed
            for h in st.handlers:
                he = {k: v for k, v in before.items() if k not in _stored_texts(st.body)}
                changed = propagate(h.body, he, fold) or changed
            if st.handlers:
                keep = _stored_texts(st.body) | _stored_texts([x for h in st.handlers for x in h.body])
                for t in keep:
                    _kill(env, t)
            changed = propagate(st.finalbody, env, fold) or changed
        elif isinstance(st, (ast.Raise, ast.Assert)):
            pass
        elif isinstance(st, (ast.FunctionDef, ast.AsyncFunctionDef, ast.ClassDef)):
            _kill(env, st.name)
        elif isinstance(st, ast.Delete):
            for tg in st.targets:
                tx = _target_text(tg)
                if tx:
                    _kill(env, tx)
    return changed


def specialise(fn_node, bindings, tables=None, rounds=6):
    """-> specialised copy of the FunctionDef (parent links: none)"""
    fn = _copy_tree(fn_node)
    tables = dict(tables or {})
    # the expressions to bind are given as attribute chains (`self.grid.origin`): a local that merely names such a chain is written
    # out first, so that the binding finds every read of it
    from .simplify import AliasInline
    al = AliasInline()
    al.force = True
    fn = al.visit(ast.Module(body=[fn], type_ignores=[])).body[0]
    for _ in range(rounds):
        # mark test positions (an and/or there is used for its truth value only)
        for n in ast.walk(fn):
            if isinstance(n, (ast.If, ast.While, ast.Assert)) and isinstance(n.test, ast.BoolOp):
                n.test._test_pos = True
        shadow = {n.id for n in ast.walk(fn) if isinstance(n, ast.Name) and isinstance(n.ctx, (ast.Store, ast.Del))} | \
            {a.arg for a in ast.walk(fn.args) if isinstance(a, ast.arg)}
        f = _Fold(bindings, tables, shadow)
        fn = f.visit(fn)
        env = {}
        prop = propagate(fn.body, env, lambda e: _Fold(bindings, tables, shadow).visit(e))
        fn._final_env = env
        f.changed = f.changed or prop
        fn.body, pruned = _prune(fn.body)
        if not fn.body:
            fn.body = [ast.Pass()]
        # a local that holds one literal: its reads are the literal
        lits = _literal_locals(fn)
        sub = False
        if lits:
            class S(ast.NodeTransformer):
                def visit_Name(self, n):
                    nonlocal sub
                    if isinstance(n.ctx, ast.Load) and n.id in lits:
                        sub = True
                        return _copy_tree(lits[n.id].value)
                    return n
            fn = S().visit(fn)
            if sub:
                drop = {id(a) for a in lits.values()}

                def strip(body):
                    new = [s for s in body if id(s) not in drop]
                    for s in new:
                        for fld in ('body', 'orelse', 'finalbody'):
                            blk = getattr(s, fld, None)
                            if isinstance(blk, list) and blk and isinstance(blk[0], ast.stmt):
                                setattr(s, fld, strip(blk) or [ast.copy_location(ast.Pass(), s)])
                        for h in getattr(s, 'handlers', []) or []:
                            h.body = strip(h.body) or [ast.copy_location(ast.Pass(), h)]
                    return new
                fn.body = strip(fn.body) or [ast.Pass()]
        if not (f.changed or pruned or sub):
            break
    from .simplify import simplify_tree
    mod = ast.Module(body=[fn], type_ignores=[])
    simplify_tree(mod)
    ast.fix_missing_locations(mod)
    return mod.body[0]


def module_tables(tree):
    """module-level NAME = {literal dict} / (literal tuple) and class-level ones (as '.NAME'), each assigned once in the module"""
    count, cand = {}, {}
    for n in ast.walk(tree):
        if isinstance(n, ast.Assign):
            for t in n.targets:
                for x in ast.walk(t):
                    if isinstance(x, ast.Name):
                        count[x.id] = count.get(x.id, 0) + 1
                    elif isinstance(x, ast.Attribute):
                        count['.' + x.attr] = count.get('.' + x.attr, 0) + 1
        elif isinstance(n, (ast.AugAssign, ast.AnnAssign)):
            for x in ast.walk(n.target):
                if isinstance(x, ast.Name):
                    count[x.id] = count.get(x.id, 0) + 2

    def scan(body, prefix):
        for st in body:
            if isinstance(st, ast.Assign) and len(st.targets) == 1 and isinstance(st.targets[0], ast.Name) and \
                    isinstance(st.value, (ast.Dict, ast.Tuple, ast.List)):
                cand[prefix + st.targets[0].id] = (st.targets[0].id, st.value)
            elif isinstance(st, ast.ClassDef):
                scan(st.body, '.')
    scan(tree.body, '')
    return {k: v for k, (nm, v) in cand.items() if count.get(nm, 0) == 1 and (not k.startswith('.') or count.get(k, 0) == 0)}
