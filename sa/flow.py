"""Values: flow-insensitive def-use inside one function, dependency queries,
provenance classes, constant folding of literals."""
import ast
import re
import struct

from .cfg import dotted, call_name, simple_name, unparse, const_value
from .model import Undecided


class Defs:
    """name / dotted attribute path -> list of (value expr, selector).
    selector: None (whole value), int (tuple element k), 'elem' (iteration
    element), 'aug' (augmented assignment), 'with' (context manager result),
    'param'."""

    def __init__(self, fnnode, include_nested=True):
        self.fn = fnnode
        self.defs = {}
        self.ctrl = {}     # name -> controlling test/iter expressions of its definitions
        self._cur = None
        self.params = set()
        if isinstance(fnnode, (ast.FunctionDef, ast.AsyncFunctionDef, ast.Lambda)):
            a = fnnode.args
            for x in a.posonlyargs + a.args + a.kwonlyargs:
                self.params.add(x.arg)
            if a.vararg:
                self.params.add(a.vararg.arg)
            if a.kwarg:
                self.params.add(a.kwarg.arg)
        for node in ast.walk(fnnode):
            self._cur = node
            if isinstance(node, ast.Assign):
                for t in node.targets:
                    self._bind(t, node.value, None)
            elif isinstance(node, ast.AnnAssign) and node.value is not None:
                self._bind(node.target, node.value, None)
            elif isinstance(node, ast.AugAssign):
                self._bind(node.target, node.value, 'aug')
            elif isinstance(node, (ast.For, ast.AsyncFor)):
                self._bind(node.target, node.iter, 'elem')
            elif isinstance(node, ast.comprehension):
                self._bind(node.target, node.iter, 'elem')
            elif isinstance(node, (ast.With, ast.AsyncWith)):
                for it in node.items:
                    if it.optional_vars is not None:
                        self._bind(it.optional_vars, it.context_expr, 'with')
            elif isinstance(node, ast.NamedExpr):
                self._bind(node.target, node.value, None)
            elif isinstance(node, ast.Lambda) and node is not fnnode:
                for x in node.args.args:
                    self.defs.setdefault(x.arg, []).append((node, 'lambda-param'))

    def _controls(self):
        out = []
        n = getattr(self._cur, '_parent', None)
        child = self._cur
        while n is not None and n is not self.fn:
            if isinstance(n, (ast.If, ast.While)) and child is not n.test:
                out.append(n.test)
            elif isinstance(n, (ast.For, ast.AsyncFor)) and child is not n.iter:
                out.append(n.iter)
            elif isinstance(n, ast.IfExp):
                out.append(n.test)
            child = n
            n = getattr(n, '_parent', None)
        return out

    def _bind(self, target, value, sel):
        key = target.id if isinstance(target, ast.Name) else None
        if key is not None and self._cur is not None:
            c = self._controls()
            if c:
                self.ctrl.setdefault(key, []).extend(c)
        if isinstance(target, ast.Name):
            self.defs.setdefault(target.id, []).append((value, sel))
        elif isinstance(target, (ast.Tuple, ast.List)):
            if sel is None and isinstance(value, (ast.Tuple, ast.List)) and len(value.elts) == len(target.elts) \
                    and not any(isinstance(e, ast.Starred) for e in value.elts + target.elts):
                for t, v in zip(target.elts, value.elts):
                    self._bind(t, v, None)
            else:
                for k, t in enumerate(target.elts):
                    if isinstance(t, ast.Starred):
                        self._bind(t.value, value, 'elem')
                    elif sel is None:
                        self._bind(t, value, k)
                    else:
                        self._bind(t, value, (sel, k))
        elif isinstance(target, ast.Attribute):
            d = dotted(target)
            if d:
                self.defs.setdefault(d, []).append((value, sel))
        elif isinstance(target, ast.Subscript):
            d = dotted(target.value)
            if d:
                self.defs.setdefault(d + '[]', []).append((value, sel))
        elif isinstance(target, ast.Starred):
            self._bind(target.value, value, 'elem')

    def of(self, name):
        return self.defs.get(name, [])

    def single(self, name):
        d = self.of(name)
        return d[0] if len(d) == 1 else None


def scoped_defs(node, defs):
    """definitions of the Name/Attribute `node`, honouring comprehension and lambda scopes"""
    key = node.id if isinstance(node, ast.Name) else dotted(node) if isinstance(node, ast.Attribute) else None
    if key is None:
        return None, []
    if isinstance(node, ast.Name):
        n = getattr(node, '_parent', None)
        while n is not None and n is not defs.fn:
            if isinstance(n, (ast.ListComp, ast.GeneratorExp, ast.SetComp, ast.DictComp)):
                for gen in n.generators:
                    for t in ast.walk(gen.target):
                        if isinstance(t, ast.Name) and t.id == key:
                            return key, [(gen.iter, 'elem')]
            elif isinstance(n, ast.Lambda):
                if any(a.arg == key for a in n.args.args):
                    return key, [(n, 'lambda-param')]
            n = getattr(n, '_parent', None)
    ds = defs.defs.get(key, [])
    # drop bindings that belong to comprehension scopes elsewhere in the function
    out = []
    for v, sel in ds:
        if sel == 'lambda-param':
            continue
        par = getattr(v, '_parent', None)
        if isinstance(par, ast.comprehension) and par.iter is v:
            continue
        out.append((v, sel))
    return key, out


def depends(expr, pred, defs, depth=8, control=False):
    """does expr, expanded through local definitions, contain a node
    satisfying pred?  pred gets an ast node."""
    seen = set()

    def rec(e, d):
        for x in ast.walk(e):
            if pred(x):
                return True
        if d <= 0:
            return False
        for x in ast.walk(e):
            if not isinstance(x, (ast.Name, ast.Attribute)):
                continue
            key, ds = scoped_defs(x, defs)
            if not key or not ds:
                continue
            mark = (key, id(ds[0][0]))
            if mark in seen:
                continue
            seen.add(mark)
            for v, sel in ds:
                if isinstance(v, ast.Lambda):
                    continue
                if rec(v, d - 1):
                    return True
            if control:
                for t in defs.ctrl.get(key, []):
                    if rec(t, d - 1):
                        return True
        return False
    return rec(expr, depth)


def expand(expr, defs, depth=6, roots=None):
    """all expressions reachable from expr through local defs (incl. expr);
    `roots` (a set) receives the names that have no local definition"""
    out, seen = [expr], set()

    def rec(e, d):
        for x in ast.walk(e):
            if not isinstance(x, (ast.Name, ast.Attribute)):
                continue
            key, ds = scoped_defs(x, defs)
            if not key:
                continue
            if not ds:
                if roots is not None and isinstance(x, ast.Name):
                    roots.add(key)
                continue
            mark = (key, id(ds[0][0]))
            if mark in seen or d <= 0:
                continue
            seen.add(mark)
            for v, sel in ds:
                if isinstance(v, ast.Lambda):
                    continue
                out.append(v)
                rec(v, d - 1)
    rec(expr, depth)
    return out


def names_in(expr):
    return {x.id for x in ast.walk(expr) if isinstance(x, ast.Name)}


# ------------------------------------------------------------------ consteval

class NotConst(Exception):
    pass


def consteval(expr, repo=None, mod=None, depth=6, env=None):
    """fold literals, module constants, arithmetic, len() and struct.calcsize
    of literals, tuple indexing.  Raises NotConst."""
    e = expr
    if isinstance(e, ast.Constant):
        return e.value
    if isinstance(e, ast.Name):
        if env and e.id in env:
            return env[e.id]
        if repo is not None and mod is not None and depth > 0:
            m2, v = repo.const_expr(mod, e.id)
            if v is not None:
                return consteval(v, repo, m2, depth - 1)
        raise NotConst(e.id)
    if isinstance(e, ast.Attribute):
        if isinstance(e.value, ast.Name) and e.value.id == 'math' and e.attr in ('pi', 'e'):
            import math
            return getattr(math, e.attr)
        # module.CONST  or  fcntl.LOCK_EX style symbolic flags
        if isinstance(e.value, ast.Name) and repo is not None and mod is not None:
            imp = mod.imports.get(e.value.id)
            if imp and imp[0] == 'mod' and imp[1] in repo.bymod:
                tm = repo.bymod[imp[1]]
                if e.attr in tm.constants:
                    return consteval(tm.constants[e.attr], repo, tm, depth - 1)
            if imp and imp[0] == 'obj' and (imp[1] + '.' + imp[2]) in repo.bymod:
                tm = repo.bymod[imp[1] + '.' + imp[2]]
                if e.attr in tm.constants:
                    return consteval(tm.constants[e.attr], repo, tm, depth - 1)
        raise NotConst(unparse(e))
    if isinstance(e, (ast.Tuple, ast.List)):
        return tuple(consteval(x, repo, mod, depth, env) for x in e.elts)
    if isinstance(e, ast.UnaryOp):
        v = consteval(e.operand, repo, mod, depth, env)
        if isinstance(e.op, ast.USub):
            return -v
        if isinstance(e.op, ast.UAdd):
            return +v
        if isinstance(e.op, ast.Not):
            return not v
        if isinstance(e.op, ast.Invert):
            return ~v
    if isinstance(e, ast.BinOp):
        l = consteval(e.left, repo, mod, depth, env)
        r = consteval(e.right, repo, mod, depth, env)
        try:
            if isinstance(e.op, ast.Add):
                return l + r
            if isinstance(e.op, ast.Sub):
                return l - r
            if isinstance(e.op, ast.Mult):
                return l * r
            if isinstance(e.op, ast.Div):
                return l / r
            if isinstance(e.op, ast.FloorDiv):
                return l // r
            if isinstance(e.op, ast.Mod):
                if isinstance(l, (str, bytes)):
                    raise NotConst('format')
                return l % r
            if isinstance(e.op, ast.Pow):
                return l ** r
            if isinstance(e.op, ast.LShift):
                return l << r
            if isinstance(e.op, ast.RShift):
                return l >> r
            if isinstance(e.op, ast.BitOr):
                return l | r
            if isinstance(e.op, ast.BitAnd):
                return l & r
        except (TypeError, ZeroDivisionError, ValueError) as ex:
            raise NotConst(str(ex))
    if isinstance(e, ast.Subscript):
        v = consteval(e.value, repo, mod, depth, env)
        i = consteval(e.slice, repo, mod, depth, env)
        try:
            return v[i]
        except Exception as ex:
            raise NotConst(str(ex))
    if isinstance(e, ast.Call):
        n = call_name(e) or ''
        if n == 'len' and len(e.args) == 1:
            return len(consteval(e.args[0], repo, mod, depth, env))
        if n in ('struct.calcsize', 'calcsize') and len(e.args) == 1:
            f = consteval(e.args[0], repo, mod, depth, env)
            if isinstance(f, (str, bytes)):
                return struct.calcsize(f)
        if n in ('math.pi',):
            pass
        if n in ('int', 'float') and len(e.args) == 1:
            return {'int': int, 'float': float}[n](consteval(e.args[0], repo, mod, depth, env))
    raise NotConst(unparse(e)[:60])


def try_const(expr, repo=None, mod=None, default=None, env=None):
    try:
        return consteval(expr, repo, mod, env=env)
    except NotConst:
        return default


# ----------------------------------------------------------------- provenance

NUMERIC_CONV = re.compile(r'%(?:\([^)]*\))?[-+0 #]*\d*(?:\.\d+)?([a-zA-Z%])')


def fmt_all_numeric(s):
    convs = NUMERIC_CONV.findall(s)
    return bool(convs) and all(c in 'dixXofeEgG%' for c in convs)


STRING_PASSTHROUGH = {'str', 'join', 'format', 'sorted', 'list', 'tuple', 'map', 'filter', 'abspath', 'relpath',
                      'dirname', 'normpath', 'lower', 'upper', 'strip', 'rstrip', 'lstrip', 'keys', 'values',
                      'items', 'get', 'NoCaseMultiDict', 'dict', 'copy', 'encode', 'decode', 'basename', 'split',
                      'splitext', 'reversed', 'set', 'iter', 'next', 'zip', 'enumerate', 'pop', 'title', 'text_type',
                      'unquote', 'quote', 'replace', 'escape', 'glob'}


class Prov:
    """provenance(expr) -> set of labels CONST CONFIG NUM HASH REQ:* SAN:* BUILDER:* PARAM:* CALL:* UNKNOWN:*"""

    def __init__(self, fnnode, contracts=None, summaries=None, sanitizers=(), self_attrs=None, repo=None, mod=None):
        self.repo, self.mod = repo, mod
        self.contracts = contracts or {}
        self.summaries = summaries or {}
        self.sanitizers = set(sanitizers)
        self.self_attrs = self_attrs or {}
        self.defs = Defs(fnnode)
        self._stack = []

    def of(self, e):
        key = id(e)
        if key in self._stack:
            return set()
        if len(self._stack) > 40:
            return {'UNKNOWN:depth'}
        self._stack.append(key)
        try:
            return self._of(e)
        finally:
            self._stack.pop()

    def _mutations(self, name):
        cache = self.__dict__.setdefault('_mut', {})
        if name in cache:
            return cache[name]
        cache[name] = set()         # (a collection that is put into itself)
        out = set()
        for x in ast.walk(self.defs.fn):
            if isinstance(x, ast.Call) and isinstance(x.func, ast.Attribute) and isinstance(x.func.value, ast.Name) and x.func.value.id == name and \
                    x.func.attr in ('append', 'extend', 'insert', 'add', 'update', 'setdefault', 'appendleft', 'extendleft'):
                for a in list(x.args) + [k.value for k in x.keywords]:
                    out |= self.of(a)
            elif isinstance(x, ast.Assign) and any(isinstance(t, ast.Subscript) and isinstance(t.value, ast.Name) and t.value.id == name for t in x.targets):
                out |= self.of(x.value)
            elif isinstance(x, ast.AugAssign) and isinstance(x.target, ast.Name) and x.target.id == name:
                out |= self.of(x.value)
        cache[name] = out
        return out

    def _lookup(self, d):
        parts = d.split('.')
        for i in range(len(parts), 0, -1):
            k = '.'.join(parts[:i])
            if k in self.contracts:
                return set(self.contracts[k])
        return None

    def _of(self, e):
        if isinstance(e, ast.Constant):
            return {'CONST'}
        d = dotted(e) if isinstance(e, (ast.Name, ast.Attribute)) else None
        if d:
            c = self._lookup(d)
            if c is not None:
                return c
            if d in self.defs.defs:
                out = set()
                for v, sel in self.defs.defs[d]:
                    if isinstance(v, ast.Lambda) and sel == 'lambda-param':
                        out |= self._lambda_param(v, d)
                    else:
                        out |= self.of(v)
                # what is put into a local collection afterwards is part of what it holds: name.append(x) / extend / insert / add /
                # update / setdefault, name[k] = x, name += x
                if isinstance(e, ast.Name):
                    out |= self._mutations(d)
                return out
            if d in self.defs.params:
                return {'PARAM:' + d}
            if isinstance(e, ast.Name):
                import builtins
                if hasattr(builtins, d):
                    return {'CONST'}
                if self.mod is not None:
                    if d in self.mod.imports:
                        return {'CONST'}      # an imported module / function / class object
                    if d in self.mod.constants:
                        try:
                            consteval(self.mod.constants[d], self.repo, self.mod)
                            return {'CONST'}
                        except NotConst:
                            pass
                    if self.repo is not None and self.repo.resolve_name(self.mod, e):
                        return {'CONST'}      # a function or class object of the package
            if isinstance(e, ast.Attribute):
                if d.startswith('self.') and d.count('.') == 1:
                    return {self.self_attrs.get(e.attr, 'ATTR:' + d)}
                return self.of(e.value)
            return {'UNKNOWN:' + d}
        if isinstance(e, ast.Subscript):
            return self.of(e.value)
        if isinstance(e, ast.BinOp):
            if isinstance(e.op, ast.Mod) and isinstance(e.left, ast.Constant) and isinstance(e.left.value, str):
                if fmt_all_numeric(e.left.value):
                    return {'NUM'}
                return {'CONST'} | self.of(e.right)
            l, r = self.of(e.left), self.of(e.right)
            if l <= {'NUM', 'CONST'} and r <= {'NUM', 'CONST'} and not isinstance(e.op, ast.Add):
                return {'NUM'}
            return l | r
        if isinstance(e, ast.UnaryOp):
            return self.of(e.operand)
        if isinstance(e, (ast.Tuple, ast.List, ast.Set)):
            out = set()
            for x in e.elts:
                out |= self.of(x.value if isinstance(x, ast.Starred) else x)
            return out or {'CONST'}
        if isinstance(e, ast.Dict):
            out = set()
            for k, v in zip(e.keys, e.values):
                if k is not None:
                    out |= self.of(k)
                out |= self.of(v)
            return out or {'CONST'}
        if isinstance(e, ast.JoinedStr):
            out = {'CONST'}
            for v in e.values:
                if isinstance(v, ast.FormattedValue):
                    spec = v.format_spec
                    if spec is not None and isinstance(spec, ast.JoinedStr) and spec.values and \
                            isinstance(spec.values[0], ast.Constant) and str(spec.values[0].value)[-1:] in 'dxXofeEgG':
                        out |= {'NUM'}
                    else:
                        out |= self.of(v.value)
            return out
        if isinstance(e, ast.IfExp):
            return self.of(e.body) | self.of(e.orelse)
        if isinstance(e, ast.BoolOp):
            out = set()
            for v in e.values:
                out |= self.of(v)
            return out
        if isinstance(e, ast.Compare):
            return {'NUM'}
        if isinstance(e, (ast.GeneratorExp, ast.ListComp, ast.SetComp)):
            return self.of(e.elt)
        if isinstance(e, ast.DictComp):
            return self.of(e.key) | self.of(e.value)
        if isinstance(e, ast.Lambda):
            return self.of(e.body)
        if isinstance(e, ast.Starred):
            return self.of(e.value)
        if isinstance(e, ast.Call):
            name = call_name(e) or '?'
            simple = name.split('.')[-1]
            args = [self.of(a) for a in e.args] + [self.of(k.value) for k in e.keywords]
            allargs = set().union(*args) if args else set()
            if simple in self.summaries:
                return self.summaries[simple](self, e, args)
            if simple in self.sanitizers:
                return {'SAN:' + simple} | {a for a in allargs if not a.startswith('REQ')}
            if simple in ('int', 'len', 'float', 'hash', 'randint', 'tell', 'abs', 'round', 'time', 'getpid', 'ord'):
                return {'NUM'}
            if simple in ('hexdigest',):
                return {'HASH'}
            if simple in STRING_PASSTHROUGH:
                recv = self.of(e.func.value) if isinstance(e.func, ast.Attribute) else set()
                return (recv | allargs) or {'CONST'}
            summ = self._callee(e)
            if summ is not None:
                return summ
            return {'CALL:' + name} | allargs
        return {'UNKNOWN:' + type(e).__name__}

    def _callee(self, call):
        """a plain call of a function of the same module that has no summary: what it returns / yields, its parameters standing for the
        provenance of the arguments (helpers that were not inlined: generators, recursive ones)"""
        if self.repo is None or self.mod is None or not isinstance(call.func, ast.Name) or getattr(self, '_depth', 0) >= 3:
            return None
        try:
            fn = self.repo.fn('%s:%s' % (self.mod.rel, call.func.id))
        except Exception:       # noqa
            return None
        a = fn.node.args
        if a.vararg or a.kwarg or a.posonlyargs or any(isinstance(x, ast.Starred) for x in call.args) or any(k.arg is None for k in call.keywords):
            return None
        names = [x.arg for x in a.args]
        if len(call.args) > len(names):
            return None
        bound = {n: self.of(v) for n, v in zip(names, call.args)}
        for k in call.keywords:
            if k.arg not in names + [x.arg for x in a.kwonlyargs] or k.arg in bound:
                return None
            bound[k.arg] = self.of(k.value)
        defaults = dict(zip(names[len(names) - len(a.defaults):], a.defaults))
        defaults.update({x.arg: d for x, d in zip(a.kwonlyargs, a.kw_defaults) if d is not None})
        for n in names + [x.arg for x in a.kwonlyargs]:
            if n not in bound:
                if n not in defaults:
                    return None
                bound[n] = {'CONST'} if isinstance(defaults[n], ast.Constant) else self.of(defaults[n])
        sub = Prov(fn.node, contracts=bound, summaries=self.summaries, sanitizers=self.sanitizers, self_attrs=self.self_attrs,
                   repo=self.repo, mod=self.mod)
        sub._depth = getattr(self, '_depth', 0) + 1
        out = set()
        stack = list(fn.node.body)
        found = False
        while stack:
            n = stack.pop()
            if isinstance(n, (ast.FunctionDef, ast.AsyncFunctionDef, ast.ClassDef, ast.Lambda)):
                continue
            if isinstance(n, (ast.Return, ast.Yield, ast.YieldFrom)) and n.value is not None:
                out |= sub.of(n.value)
                found = True
            stack.extend(ast.iter_child_nodes(n))
        return (out or {'CONST'}) if found else {'CONST'}

    def _lambda_param(self, lam, name):
        # parameter of a lambda passed to map(lambda k: ..., seq): element of seq
        par = getattr(lam, '_parent', None)
        if isinstance(par, ast.Call) and simple_name(par) in ('map', 'filter', 'sorted') and len(par.args) >= 2:
            return self.of(par.args[1])
        return {'UNKNOWN:lambda-param:' + name}


# --------------------------------------------------------------- affine forms

def affine(expr, defs=None, depth=4):
    """linear normal form {term_text: coeff, '': const} or None"""
    e = expr
    if isinstance(e, ast.Constant) and isinstance(e.value, (int, float)) and not isinstance(e.value, bool):
        return {'': e.value}
    if isinstance(e, ast.UnaryOp) and isinstance(e.op, ast.USub):
        a = affine(e.operand, defs, depth)
        return None if a is None else {k: -v for k, v in a.items()}
    if isinstance(e, ast.BinOp) and isinstance(e.op, (ast.Add, ast.Sub)):
        l, r = affine(e.left, defs, depth), affine(e.right, defs, depth)
        if l is None or r is None:
            return None
        out = dict(l)
        sgn = 1 if isinstance(e.op, ast.Add) else -1
        for k, v in r.items():
            out[k] = out.get(k, 0) + sgn * v
        return {k: v for k, v in out.items() if v != 0 or k == ''}
    if isinstance(e, ast.BinOp) and isinstance(e.op, ast.Mult):
        l, r = affine(e.left, defs, depth), affine(e.right, defs, depth)
        if l is not None and r is not None:
            if set(l) <= {''}:
                c = l.get('', 0)
                return {k: c * v for k, v in r.items()}
            if set(r) <= {''}:
                c = r.get('', 0)
                return {k: c * v for k, v in l.items()}
    if isinstance(e, ast.Name) and defs is not None and depth > 0:
        d = defs.single(e.id)
        if d and d[1] is None and not isinstance(d[0], ast.Lambda):
            return affine(d[0], defs, depth - 1)
    return {unparse(e): 1}


# ------------------------------------------------------------------------ closed forms

class Canon:
    """Closed form of an expression of one function: local names are replaced by the single definition that reaches the use
    (flow-sensitive reaching definitions over the CFG), tuple unpacking and constant subscripts of tuple displays are resolved.
    Names with several reaching definitions, loop / with / except targets, parameters and attributes are left as they are.
    Two pieces of code that compute a value through differently named or differently split locals have the same closed form."""

    OPAQUE = object()

    def __init__(self, fn, depth=12, assume=None):
        """assume: atom text -> bool.  Definitions and paths that lie behind a branch edge contradicting the assumption are
        ignored (guard-correlated closed forms: `if f: s = A else: s = B ... if f: use(s)`)."""
        from .cfg import implied
        self.fn, self.g, self.depth = fn, fn.cfg, depth
        self.assume = dict(assume or {})
        self.infeasible = set()
        self.contra = []
        if self.assume:
            from .cfg import _eval3, literals
            # an edge is excluded if the assumed atoms force one of its implications the other way, or decide its test the other way
            self.contra = [(s, d) for s, d, test, pol in self.g.branch_edges()
                           if any(at.text in self.assume and self.assume[at.text] != p for at, p in implied(test, pol)) or
                           _eval3(literals(test), self.assume) not in (None, pol)]
            self.infeasible = set(self.g.stmt) - self.g.reachable(0, skip_edges=self.contra)
        # names of containers that are changed in place (item stores, mutating methods): their literal definition does not say what
        # they contain later on
        self.mutated = set()
        for x in ast.walk(self.fn.node):
            if isinstance(x, (ast.Subscript, ast.Attribute)) and isinstance(x.ctx, (ast.Store, ast.Del)) and isinstance(x.value, ast.Name):
                self.mutated.add(x.value.id)
            elif isinstance(x, ast.Call) and isinstance(x.func, ast.Attribute) and isinstance(x.func.value, ast.Name) and \
                    x.func.attr in ('append', 'extend', 'insert', 'pop', 'update', 'sort', 'reverse', 'clear', 'remove', 'add', 'discard', 'setdefault', 'popitem'):
                self.mutated.add(x.func.value.id)
            elif isinstance(x, ast.AugAssign) and isinstance(x.target, ast.Name):
                pass
        self.sites = {}     # name -> [(cfg node, value expr | OPAQUE, sel)]
        for n, st in self.g.stmt.items():
            if st is None:
                continue
            if isinstance(st, ast.Assign):
                for t in st.targets:
                    self._bind(t, n, st.value)
            elif isinstance(st, ast.AnnAssign) and st.value is not None:
                self._bind(st.target, n, st.value)
            elif isinstance(st, ast.AugAssign):
                if isinstance(st.target, ast.Name):
                    # x += v  ==  x = x + v  (the x on the right is the definition reaching this statement)
                    v = ast.copy_location(ast.BinOp(left=ast.Name(id=st.target.id, ctx=ast.Load()), op=st.op, right=st.value), st)
                    self.sites.setdefault(st.target.id, []).append((n, v, None))
                else:
                    self._opaque(st.target, n)
            elif isinstance(st, (ast.For, ast.AsyncFor)):
                self._opaque(st.target, n)
            elif isinstance(st, (ast.With, ast.AsyncWith)):
                for it in st.items:
                    if it.optional_vars is not None:
                        self._opaque(it.optional_vars, n)
            elif isinstance(st, ast.ExceptHandler) and st.name:
                self.sites.setdefault(st.name, []).append((n, self.OPAQUE, None))
            for x in ast.walk(st) if isinstance(st, (ast.Expr, ast.Assign, ast.Return, ast.If, ast.While)) else ():
                if isinstance(x, ast.NamedExpr) and isinstance(x.target, ast.Name):
                    self.sites.setdefault(x.target.id, []).append((n, self.OPAQUE, None))

    def _bind(self, t, n, value):
        if isinstance(t, ast.Name):
            self.sites.setdefault(t.id, []).append((n, value, None))
        elif isinstance(t, (ast.Tuple, ast.List)):
            for i, e in enumerate(t.elts):
                if isinstance(e, ast.Name):
                    self.sites.setdefault(e.id, []).append((n, value, i))
                else:
                    self._opaque(e, n)

    def _opaque(self, t, n):
        for x in ast.walk(t):
            if isinstance(x, ast.Name):
                self.sites.setdefault(x.id, []).append((n, self.OPAQUE, None))

    def reaching(self, name, n):
        """definitions of `name` that reach CFG node n -> list of sites; includes None if the function entry reaches n undefined"""
        sites = [s for s in self.sites.get(name, []) if s[0] not in self.infeasible]
        if not sites:
            return [None]
        nodes = {s[0] for s in sites}
        out = []
        for s in sites:
            if self.g.reaches_avoiding(s[0], n, avoid=(nodes - {s[0]}) | (self.infeasible - {n}), skip_edges=self.contra):
                out.append(s)
        if n == 0 or self.g.reaches_avoiding(0, n, avoid=nodes | (self.infeasible - {n}), skip_edges=self.contra) or (0 in self.g.succ and n in self.g.succ[0] and n not in nodes):
            out.append(None)
        return out

    def expr(self, e, at=None, depth=None):
        """closed form of expression e evaluated at CFG node `at` (default: the statement that contains e)"""
        import copy
        if at is None:
            at = self.g.node_for(e)
        depth = self.depth if depth is None else depth
        return self._sub(e, at, depth, frozenset())

    def text(self, e, at=None):
        return ast.unparse(self.expr(e, at)).replace(' ', '')

    def linked(self, e, at=None):
        """closed form with _parent links (for rules that look at the context of a sub-expression)"""
        import copy
        new = copy.deepcopy(self._strip(self.expr(e, at)))
        new._parent = None
        from .model import _SHARED_NODES
        for node in ast.walk(new):
            for ch in ast.iter_child_nodes(node):
                if not isinstance(ch, _SHARED_NODES):
                    ch._parent = node
        return new

    @staticmethod
    def _strip(e):
        """copy without parent links (deepcopy would follow them into the whole module)"""
        import copy
        if isinstance(e, list):
            return [Canon._strip(x) for x in e]
        if not isinstance(e, ast.AST):
            return e
        new = copy.copy(e)
        if hasattr(new, '_parent'):
            del new._parent
        for fld, val in ast.iter_fields(e):
            setattr(new, fld, Canon._strip(val))
        return new

    def _sub(self, e, at, depth, bound):
        import copy
        if isinstance(e, ast.Name):
            if not isinstance(e.ctx, ast.Load) or e.id in bound or depth <= 0 or at is None:
                return e
            rd = self.reaching(e.id, at)
            if len(rd) != 1 or rd[0] is None or rd[0][1] is self.OPAQUE:
                return e
            dn, v, sel = rd[0]
            if e.id in self.mutated and isinstance(v, (ast.List, ast.Dict, ast.Set, ast.ListComp, ast.DictComp, ast.SetComp)):
                return e            # a container that is filled / changed in place: its display is not its value at the use
            sub = self._sub(v, dn, depth - 1, frozenset())
            if sel is None:
                return sub
            if isinstance(v, ast.Name) and v.id in self.mutated and isinstance(sub, ast.Name):
                return self._fold(ast.Subscript(value=sub, slice=ast.Constant(value=sel), ctx=ast.Load()))
            if isinstance(sub, (ast.Tuple, ast.List)) and sel < len(sub.elts) and not any(isinstance(x, ast.Starred) for x in sub.elts):
                return sub.elts[sel]
            return self._fold(ast.Subscript(value=sub, slice=ast.Constant(value=sel), ctx=ast.Load()))
        if isinstance(e, (ast.ListComp, ast.SetComp, ast.GeneratorExp, ast.DictComp)):
            b = set(bound)
            for gen in e.generators:
                b |= {x.id for x in ast.walk(gen.target) if isinstance(x, ast.Name)}
            b = frozenset(b)
            new = copy.copy(e)
            new.generators = []
            for gen in e.generators:
                g2 = copy.copy(gen)
                g2.iter = self._sub(gen.iter, at, depth, b)
                g2.ifs = [self._sub(i, at, depth, b) for i in gen.ifs]
                new.generators.append(g2)
            for fld in ('elt', 'key', 'value'):
                if hasattr(e, fld):
                    setattr(new, fld, self._sub(getattr(e, fld), at, depth, b))
            return new
        if isinstance(e, ast.Lambda):
            b = frozenset(set(bound) | {a.arg for a in e.args.args + e.args.kwonlyargs})
            new = copy.copy(e)
            new.body = self._sub(e.body, at, depth, b)
            return new
        if not isinstance(e, ast.AST):
            return e
        new = copy.copy(e)
        for fld, val in ast.iter_fields(e):
            if isinstance(val, ast.expr):
                setattr(new, fld, self._sub(val, at, depth, bound))
            elif isinstance(val, list):
                setattr(new, fld, [self._sub(v, at, depth, bound) if isinstance(v, (ast.expr, ast.keyword)) else v for v in val])
            elif isinstance(val, ast.keyword):
                setattr(new, fld, self._sub(val, at, depth, bound))
        return self._fold(new)

    def _nt_fields(self, name):
        """field names of a module level namedtuple `name = namedtuple('..', 'a b' | ['a', 'b'])` (also typing.NamedTuple call form)"""
        cache = self.__dict__.setdefault('_nt', {})
        if name in cache:
            return cache[name]
        v = getattr(self.fn.mod, 'constants', {}).get(name)
        if v is None:
            # imported from another module of the package
            imp = getattr(self.fn.mod, 'imports', {}).get(name)
            if imp and imp[0] == 'obj':
                m = getattr(self.fn.repo, 'bymod', {}).get(imp[1])
                if m is not None:
                    v = m.constants.get(imp[2])
        if v is None:
            # a helper of another module was inlined here together with the names it uses: unique definition in the package
            cands = [m.constants[name] for m in getattr(self.fn.repo, 'modules', {}).values() if name in getattr(m, 'constants', {})]
            if len(cands) == 1:
                v = cands[0]
        out = None
        if isinstance(v, ast.Call) and (getattr(v.func, 'id', None) == 'namedtuple' or getattr(v.func, 'attr', None) == 'namedtuple') and len(v.args) >= 2:
            f = v.args[1]
            if isinstance(f, ast.Constant) and isinstance(f.value, str):
                out = f.value.replace(',', ' ').split()
            elif isinstance(f, (ast.List, ast.Tuple)) and all(isinstance(x, ast.Constant) and isinstance(x.value, str) for x in f.elts):
                out = [x.value for x in f.elts]
        cache[name] = out
        return out

    def _nt_component(self, call, key):
        """the argument of a namedtuple construction that a field name / index selects, or None"""
        if not (isinstance(call, ast.Call) and isinstance(call.func, ast.Name)):
            return None
        fields = self._nt_fields(call.func.id)
        if not fields or any(isinstance(a, ast.Starred) for a in call.args) or any(k.arg is None for k in call.keywords):
            return None
        vals = dict(zip(fields, call.args))
        for k in call.keywords:
            vals[k.arg] = k.value
        if isinstance(key, int):
            key = fields[key] if -len(fields) <= key < len(fields) else None
        return vals.get(key)

    def as_tuple(self, e):
        """a tuple display, or the construction of a module level namedtuple as the tuple display of its fields in order; else None"""
        if isinstance(e, ast.Tuple):
            return e
        if isinstance(e, ast.Call) and isinstance(e.func, ast.Name):
            fields = self._nt_fields(e.func.id)
            if fields:
                elts = [self._nt_component(e, f) for f in fields]
                if all(x is not None for x in elts) and len(e.args) + len(e.keywords) == len(fields):
                    return ast.Tuple(elts=elts, ctx=ast.Load())
        return None

    def _fold(self, new):
        if isinstance(new, ast.Attribute) and isinstance(new.value, ast.Call):
            c = self._nt_component(new.value, new.attr)
            if c is not None:
                return c
        if isinstance(new, ast.Subscript) and isinstance(new.value, ast.Call) and isinstance(new.slice, ast.Constant) and isinstance(new.slice.value, int):
            c = self._nt_component(new.value, new.slice.value)
            if c is not None:
                return c
        return self._fold_static(new)

    @staticmethod
    def _fold_static(new):
        if isinstance(new, ast.Subscript) and isinstance(new.value, (ast.Tuple, ast.List)) and isinstance(new.slice, ast.Constant) and \
                isinstance(new.slice.value, int) and -len(new.value.elts) <= new.slice.value < len(new.value.elts) and \
                not any(isinstance(x, ast.Starred) for x in new.value.elts):
            return new.value.elts[new.slice.value]
        if isinstance(new, ast.Subscript) and isinstance(new.slice, ast.Constant) and isinstance(new.slice.value, int) and new.slice.value >= 0 and \
                isinstance(new.value, ast.Subscript) and isinstance(new.value.slice, ast.Slice) and new.value.slice.step is None:
            lo = new.value.slice.lower
            lov = 0 if lo is None else lo.value if isinstance(lo, ast.Constant) and isinstance(lo.value, int) else None
            if lov is not None and lov >= 0:      # v[lo:hi][i] == v[lo + i] (within the slice)
                return Canon._fold_static(ast.Subscript(value=new.value.value, slice=ast.Constant(value=lov + new.slice.value), ctx=ast.Load()))
        if isinstance(new, ast.Subscript) and isinstance(new.slice, ast.Constant) and new.slice.value in (0, 1) and isinstance(new.value, ast.Call) and \
                isinstance(new.value.func, ast.Name) and new.value.func.id == 'divmod' and len(new.value.args) == 2 and not new.value.keywords:
            a, b = new.value.args        # divmod(a, b) == (a // b, a % b)
            return ast.BinOp(left=a, op=ast.FloorDiv() if new.slice.value == 0 else ast.Mod(), right=b)
        if isinstance(new, ast.BinOp) and isinstance(new.op, ast.Add) and isinstance(new.left, ast.Tuple) and isinstance(new.right, ast.Tuple):
            return ast.Tuple(elts=list(new.left.elts) + list(new.right.elts), ctx=ast.Load())
        if isinstance(new, ast.BinOp) and isinstance(new.op, ast.Add) and isinstance(new.left, ast.Constant) and isinstance(new.right, ast.Constant) \
                and isinstance(new.left.value, str) and isinstance(new.right.value, str):
            return ast.Constant(value=new.left.value + new.right.value)
        return new
