"""Shared helpers for rules."""
import ast
import re

from .cfg import (dotted, call_name, is_call, simple_name, unparse, const_value, contains, find_all,
                  enclosing, enclosing_stmt, norm_cmp, implied, all_atoms)
from .flow import Defs, depends, expand, consteval, try_const, NotConst, names_in
from .model import Undecided

HOLE = '\x00'


def str_variants(expr, defs, depth=5):
    """possible string values of expr with non-literal parts replaced by HOLE.
    Returns a list of strings (one per combination of reaching definitions,
    capped)."""
    def rec(e, d):
        if isinstance(e, ast.Constant):
            if isinstance(e.value, str):
                return [e.value]
            if isinstance(e.value, bytes):
                return [e.value.decode('latin1')]
            return [HOLE]
        if isinstance(e, ast.JoinedStr):
            outs = ['']
            for v in e.values:
                if isinstance(v, ast.Constant):
                    outs = [o + str(v.value) for o in outs]
                else:
                    outs = [o + HOLE for o in outs]
            return outs
        if isinstance(e, ast.BinOp) and isinstance(e.op, ast.Add):
            ls, rs = rec(e.left, d), rec(e.right, d)
            return [l + r for l in ls for r in rs][:16]
        if isinstance(e, ast.BinOp) and isinstance(e.op, ast.Mod):
            ls = rec(e.left, d)
            return [re.sub(r'%(?:\([^)]*\))?[-+0 #]*\d*(?:\.\d+)?[a-zA-Z]', HOLE, l) for l in ls]
        if isinstance(e, ast.Call) and isinstance(e.func, ast.Attribute) and e.func.attr == 'format':
            ls = rec(e.func.value, d)
            return [re.sub(r'\{[^{}]*\}', HOLE, l) for l in ls]
        if isinstance(e, ast.Call) and isinstance(e.func, ast.Attribute) and e.func.attr == 'join':
            seps = rec(e.func.value, d)
            if e.args:
                inner = rec(e.args[0], d)
                return [HOLE + i + HOLE for i in inner][:8] if inner != [HOLE] else [HOLE]
            return [HOLE]
        if isinstance(e, ast.BinOp) and isinstance(e.op, ast.Mult):
            for side in (e.left, e.right):
                if isinstance(side, (ast.List, ast.Tuple)) and len(side.elts) == 1:
                    return rec(side.elts[0], d)
            return [HOLE]
        if isinstance(e, (ast.List, ast.Tuple)) and len(e.elts) == 1:
            return rec(e.elts[0], d)
        if isinstance(e, ast.Name) and d > 0 and defs is not None:
            ds = defs.of(e.id)
            if not ds:
                return [HOLE]
            bases = []
            augs = []
            for v, sel in ds:
                if sel is None:
                    bases.extend(rec(v, d - 1))
                elif sel == 'aug':
                    augs.extend(rec(v, d - 1))
                else:
                    bases.append(HOLE)
            bases = bases or [HOLE]
            out = list(bases)
            # flow-insensitive: any subset order of aug parts -> base, base+aug_i, base+aug_1+..+aug_n
            if augs:
                for b in bases:
                    acc = b
                    for a in augs:
                        out.append(b + a)
                        acc = acc + a
                    out.append(acc)
            seen, uniq = set(), []
            for o in out:
                if o not in seen:
                    seen.add(o)
                    uniq.append(o)
            return uniq[:24]
        if isinstance(e, ast.IfExp):
            return rec(e.body, d) + rec(e.orelse, d)
        return [HOLE]
    return rec(expr, depth)


def keyword(call, name, pos=None):
    """argument of a call by keyword or position"""
    for k in call.keywords:
        if k.arg == name:
            return k.value
    if pos is not None and len(call.args) > pos and not any(isinstance(a, ast.Starred) for a in call.args[:pos + 1]):
        return call.args[pos]
    return None


def arg_of(call, fnnode, name):
    """argument bound to parameter `name` of the callee fnnode (positional or
    keyword); assumes a bound method when fnnode's first param is self/cls and
    the call is an attribute call"""
    params = [a.arg for a in fnnode.args.posonlyargs + fnnode.args.args]
    if params and params[0] in ('self', 'cls') and isinstance(call.func, ast.Attribute):
        params = params[1:]
    for k in call.keywords:
        if k.arg == name:
            return k.value
    if name in params:
        i = params.index(name)
        if i < len(call.args) and not any(isinstance(a, ast.Starred) for a in call.args[:i + 1]):
            return call.args[i]
    return None


def subscript_index(node):
    """constant index of a Subscript or None"""
    if isinstance(node, ast.Subscript):
        return const_value(node.slice)
    return None


def is_subscript_of(node, base_pred, idx=None):
    if not isinstance(node, ast.Subscript):
        return False
    if idx is not None and const_value(node.slice) != idx:
        return False
    return base_pred(node.value)


def is_attr(node, attr):
    return isinstance(node, ast.Attribute) and node.attr == attr


def is_name(node, *ids):
    return isinstance(node, ast.Name) and node.id in ids


def stmts_in(fnnode, types):
    return [n for n in ast.walk(fnnode) if isinstance(n, types)]


def returns_of(fnnode):
    out = []
    stack = list(fnnode.body)
    while stack:
        n = stack.pop()
        if isinstance(n, (ast.FunctionDef, ast.AsyncFunctionDef, ast.ClassDef, ast.Lambda)):
            continue
        if isinstance(n, ast.Return):
            out.append(n)
        stack.extend(ast.iter_child_nodes(n))
    out.sort(key=lambda r: r.lineno)
    return out


def order_key(node):
    return (node.lineno, node.col_offset)


def calls_in(node, *suffixes):
    return sorted([x for x in ast.walk(node) if is_call(x, *suffixes)], key=order_key)


def with_items(fnnode):
    """[(With stmt, item)]"""
    out = []
    for n in ast.walk(fnnode):
        if isinstance(n, (ast.With, ast.AsyncWith)):
            for it in n.items:
                out.append((n, it))
    return out


def inside(node, ancestor):
    n = node
    while n is not None:
        if n is ancestor:
            return True
        n = getattr(n, '_parent', None)
    return False


def body_contains(stmts, node):
    return any(inside(node, s) for s in stmts)


def test_mentions(test, pred):
    return contains(test, pred)


def poly_coeffs(expr, vars_, repo, mod):
    """treat expr as a polynomial in vars_ with module constants folded; probe
    linearity.  Returns (const, {var: coeff}) or raises Undecided."""
    def ev(**kw):
        env = {v: 0 for v in vars_}
        env.update(kw)
        try:
            return consteval(expr, repo, mod, env=env)
        except NotConst as ex:
            raise Undecided('cannot fold %s: %s' % (unparse(expr), ex))
    c0 = ev()
    co = {}
    for v in vars_:
        co[v] = ev(**{v: 1}) - c0
    # linearity probe
    probe = {v: i + 2 for i, v in enumerate(vars_)}
    lin = c0 + sum(co[v] * probe[v] for v in vars_)
    if ev(**probe) != lin:
        raise Undecided('%s is not linear in %s' % (unparse(expr), vars_))
    return c0, co


def resolve1(expr, defs, depth=3):
    """follow a name through single whole-value definitions"""
    while isinstance(expr, ast.Name) and depth > 0:
        ds = defs.of(expr.id)
        if len(ds) != 1 or ds[0][1] is not None:
            break
        expr = ds[0][0]
        depth -= 1
    return expr


def component_expr(expr, defs, depth=3):
    """(tuple-valued source expression, index) for `v[i]`, for a name bound by `v0, v1 = src` and for a name bound to `src[i]`;
    the source expression is itself followed through single definitions.  None if the form is not recognised."""
    if isinstance(expr, ast.Subscript):
        i = expr.slice.value if isinstance(expr.slice, ast.Constant) else None
        if isinstance(i, int):
            return resolve1(expr.value, defs, depth), i
        return None
    if isinstance(expr, ast.Name):
        ds = defs.of(expr.id)
        if len(ds) == 1:
            v, sel = ds[0]
            if isinstance(sel, int):
                return resolve1(v, defs, depth), sel
            if sel is None and depth > 0:
                return component_expr(v, defs, depth - 1)
    return None


def component_of(expr, defs, depth=3):
    """component_expr with the source expression as text"""
    c = component_expr(expr, defs, depth)
    return (ast.unparse(c[0]), c[1]) if c else None


def origin_path(expr, defs, depth=8):
    """(text of the root expression, selector path) of a value obtained by unpacking / indexing / iterating: names are followed
    through single definitions; the path lists 'elem' (loop or comprehension element) and integer positions from the root outwards.
    `for a, b in xs` and `for t in xs: a, b = t` give a the same origin ('xs', ('elem', 0))."""
    def flat(sel):
        if sel is None:
            return []
        if isinstance(sel, tuple):
            return flat(sel[0]) + [sel[1]]
        return [sel]
    if depth <= 0:
        return ast.unparse(expr), ()
    if isinstance(expr, ast.Subscript) and isinstance(expr.slice, ast.Constant) and isinstance(expr.slice.value, int):
        r, p = origin_path(expr.value, defs, depth - 1)
        return r, p + (expr.slice.value,)
    if isinstance(expr, ast.Name):
        ds = defs.of(expr.id)
        if len(ds) == 1 and ds[0][1] not in ('aug', 'with', 'lambda-param') and not isinstance(ds[0][0], ast.Lambda):
            v, sel = ds[0]
            r, p = origin_path(v, defs, depth - 1)
            return r, p + tuple(flat(sel))
    return ast.unparse(expr), ()


def call_targets(call, defs):
    """dotted names the callee of `call` may denote: the callee itself, or -- for a local bound to function references
    (`f = os.link` / `f = os.symlink` in the branches, then `f(...)`) -- every reference it is bound to"""
    from .cfg import dotted
    f = call.func
    d = dotted(f)
    if isinstance(f, ast.Name) and defs is not None:
        ds = defs.of(f.id)
        refs = [dotted(v) for v, sel in ds if sel is None and isinstance(v, (ast.Name, ast.Attribute))]
        if ds and len(refs) == len(ds) and all(refs):
            return refs
        if ds and all(isinstance(v, ast.IfExp) and sel is None for v, sel in ds):
            out = []
            for v, sel in ds:
                for b in (v.body, v.orelse):
                    if dotted(b):
                        out.append(dotted(b))
            if out:
                return out
    return [d] if d else []


def calls_to(g, defs, *names):
    """[(cfg node, call)] for calls whose callee is, or is a local bound only to, one of the dotted names"""
    def hit(x):
        if not isinstance(x, ast.Call):
            return False
        t = call_targets(x, defs)
        return bool(t) and all(any(n == m or n.endswith('.' + m) for m in names) for n in t)
    return g.find(hit)


def factors(e):
    """sorted texts of the factors of a product (a * b * c in any grouping / order); a non-product is its own single factor"""
    out = []

    def rec(x):
        if isinstance(x, ast.BinOp) and isinstance(x.op, ast.Mult):
            rec(x.left)
            rec(x.right)
        else:
            out.append(ast.unparse(x).replace(' ', ''))
    rec(e)
    return sorted(out)


def terms(e):
    """the summands of a sum (a + b + c in any grouping) as expressions"""
    out = []

    def rec(x):
        if isinstance(x, ast.BinOp) and isinstance(x.op, ast.Add):
            rec(x.left)
            rec(x.right)
        else:
            out.append(x)
    rec(e)
    return out


def sum_of_products(e):
    """canonical form of a sum of products: sorted list of factor lists (order of summands and factors does not matter)"""
    return sorted(factors(t) for t in terms(e))


def tiles_pattern_facts(tp):
    """MetaGrid._tiles_pattern: the two nested loops around the single yield of (tiles[<index>], (<x>, <y>)) in closed form ->
    dict(outer_iter, inner_iter, row, col, index, x, y) with index / x / y as canonical sums of products, or None"""
    from .cfg import enclosing
    ys = [x for x in tp.walk() if isinstance(x, ast.Yield)]
    if len(ys) != 1 or not isinstance(ys[0].value, ast.Tuple) or len(ys[0].value.elts) != 2:
        return None
    inner = enclosing(ys[0], ast.For)
    outer = enclosing(inner, ast.For) if inner is not None else None
    if inner is None or outer is None or not isinstance(inner.target, ast.Name) or not isinstance(outer.target, ast.Name):
        return None
    cf = tp.canon
    pair = cf.expr(ys[0].value)
    t, off = pair.elts
    if not (isinstance(t, ast.Subscript) and isinstance(off, ast.Tuple) and len(off.elts) == 2):
        return None
    return {'outer_iter': cf.text(outer.iter), 'inner_iter': cf.text(inner.iter), 'row': outer.target.id, 'col': inner.target.id,
            'seq': ast.unparse(t.value), 'index': sum_of_products(t.slice), 'x': sum_of_products(off.elts[0]), 'y': sum_of_products(off.elts[1])}
