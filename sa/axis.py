"""Axis discipline: a small qualifier system that tags values X or Y from their
construction and reports expressions that mix the two axes.

Seeds
  <bbox-like>[0|2] -> X, [1|3] -> Y      (names containing bbox/extent, `buffers`)
  <pair-like>[0] -> X, [1] -> Y            (size, tile_size, grid_size, meta_size, tile_grid, grid, coord, tile,
                                            ll, ur, topleft, offset, pos, res pairs ...)
  unpacking of such a sequence (x, y, z = tile_coord; minx, miny, maxx, maxy = bbox)
  i % W -> X, i // W -> Y  when W is X-tagged (row-major index decomposition)
  names that declare their axis (x, x0, minx, width, xs ... / y, y0, miny, height, ys ...)
Propagation through assignment, round/int/abs/floor/ceil/float and arithmetic on one axis.
Explicit joins (never reported): min/max over same-axis operands only are kept; X / Y (aspect ratio), products of
two elements of the *same* sequence (area), comparisons of two resolutions.
Reports: additive expression, ordering comparison, min/max, or coordinate x size product whose operands carry
different axes; assignment of a Y value to an X-declared name (and vice versa); a pair/coordinate literal with a
Y value in the X position (and vice versa)."""
import ast
import re

from .cfg import unparse, const_value, call_name, simple_name

BBOX_RE = re.compile(r'(bbox|extent)', re.I)
PAIR_RE = re.compile(r'(size|grid|meta_size|tile_grid|coord|^tile$|^ll$|^ur$|topleft|offset|^pos$|limit|origin$|^res$|resolution$|'
                     r'^tiles$|^main_tile$|_tile$|^crop$|^xy$|delta$)', re.I)
XNAMES = re.compile(r'^(x|x\d|minx|maxx|tile_x|xs|width|w|x_res|xres|x_limit|x_delta|a_x\d|b_x\d|src_width|dst_width|i_x|col|cols|'
                    r'x_offset|xoff|left|right|west|east)$')
YNAMES = re.compile(r'^(y|y\d|miny|maxy|tile_y|ys|height|h|y_res|yres|y_limit|y_delta|a_y\d|b_y\d|src_height|dst_height|i_y|row|rows|'
                    r'y_offset|yoff|top|bottom|north|south)$')
PASS = {'int', 'float', 'round', 'abs', 'ceil', 'floor', 'math.ceil', 'math.floor', 'list', 'tuple', 'range', 'len', 'sorted', 'reversed'}


def declared(name):
    if XNAMES.match(name):
        return 'X'
    if YNAMES.match(name):
        return 'Y'
    return None


def base_name(node):
    if isinstance(node, ast.Attribute):
        return node.attr
    if isinstance(node, ast.Name):
        return node.id
    if isinstance(node, ast.Call):
        return simple_name(node)
    if isinstance(node, ast.Subscript):
        return base_name(node.value)
    return None


class Axis(ast.NodeVisitor):
    def __init__(self, fnnode):
        self.fn = fnnode
        self.env = {}
        self.out = []       # (node, message)
        self._seed_params()
        # two passes so that later uses see earlier bindings regardless of walk order
        for _ in range(2):
            self.out = []
            for st in fnnode.body:
                self.visit(st)

    def _seed_params(self):
        a = self.fn.args
        for p in a.posonlyargs + a.args + a.kwonlyargs:
            d = declared(p.arg)
            if d:
                self.env[p.arg] = d

    # ---------------------------------------------------------------- tags
    def seq_kind(self, node):
        """'bbox' | 'pair' | None for an expression that denotes a coordinate sequence"""
        b = base_name(node)
        if b is None:
            return None
        if isinstance(node, ast.Call) and b in ('tile_bbox', '_tiles_bbox', 'bbox_for', 'transform_bbox_to', 'merge_bbox', '_get_bbox',
                                                'unbuffered_meta_bbox', 'limit_sub_bbox', 'calculate_bbox'):
            return 'bbox'
        if isinstance(node, ast.Call) and b in ('tile', 'main_tile', '_meta_size', 'flip_tile_coord', 'origin_tile', 'limit_tile',
                                                '_tile_offset', '_src_size', 'internal_tile_coord'):
            return 'pair'
        if isinstance(node, ast.Call):
            return None
        if BBOX_RE.search(b) or b in ('buffers',):
            return 'bbox'
        if PAIR_RE.search(b):
            return 'pair'
        return None

    def tag(self, node):
        """'X' | 'Y' | 'MIX' | None"""
        if isinstance(node, ast.Name):
            if node.id in self.env:
                return self.env[node.id]
            return declared(node.id)
        if isinstance(node, ast.Attribute):
            return None
        if isinstance(node, ast.Subscript):
            idx = const_value(node.slice)
            kind = self.seq_kind(node.value)
            if isinstance(idx, int) and kind == 'bbox':
                return 'X' if idx in (0, 2) else 'Y' if idx in (1, 3) else None
            if isinstance(idx, int) and kind == 'pair':
                # grid_sizes[z][0]: the outer subscript of a pair-like family
                return 'X' if idx == 0 else 'Y' if idx == 1 else None
            if isinstance(idx, int) and isinstance(node.value, ast.Subscript) and base_name(node.value) in ('grid_sizes', 'resolutions_xy'):
                return 'X' if idx == 0 else 'Y' if idx == 1 else None
            return None
        if isinstance(node, ast.UnaryOp):
            return self.tag(node.operand)
        if isinstance(node, ast.BinOp):
            l, r = self.tag(node.left), self.tag(node.right)
            if isinstance(node.op, ast.Mod):
                # i % W -> X when W is X tagged (row-major index)
                if l is None and r == 'X':
                    return 'X'
                return l
            if isinstance(node.op, ast.FloorDiv) and l is None and r == 'X':
                return 'Y'          # i // W -> row
            if isinstance(node.op, ast.Div) and l in ('X', 'Y') and r in ('X', 'Y'):
                # same axis: the axis cancels (a resolution / scale / count); different axes: reported by visit_BinOp
                return None if l == r else 'MIX'
            if isinstance(node.op, ast.Mult) and l in ('X', 'Y') and r in ('X', 'Y') and l != r:
                if self._same_sequence(node.left, node.right):
                    return None      # area
                return 'MIX'
            if l == 'MIX' or r == 'MIX':
                return 'MIX'
            if l and r and l != r:
                return 'MIX'
            return l or r
        if isinstance(node, ast.Call):
            n = call_name(node) or ''
            if n in PASS or n.split('.')[-1] in ('floor', 'ceil'):
                return self.tag(node.args[0]) if node.args else None
            if n in ('min', 'max') and node.args:
                if all(isinstance(a, ast.Call) and call_name(a) == 'abs' for a in node.args):
                    return None
                tags = {self.tag(a) for a in node.args} - {None}
                return tags.pop() if len(tags) == 1 else ('MIX' if len(tags) > 1 else None)
            return None
        if isinstance(node, ast.IfExp):
            a, b = self.tag(node.body), self.tag(node.orelse)
            return a if a == b else (a or b if not (a and b) else 'MIX')
        return None

    def _same_sequence(self, a, b):
        ba = a.value if isinstance(a, ast.Subscript) else None
        bb = b.value if isinstance(b, ast.Subscript) else None
        if ba is not None and bb is not None:
            return unparse(ba) == unparse(bb)
        # names unpacked from one sequence (w, h = size)
        return False

    def report(self, node, msg):
        self.out.append((node, msg))

    # ------------------------------------------------------------- visitors
    def _bind(self, target, value):
        if isinstance(target, ast.Name):
            t = self.tag(value) if value is not None else None
            d = declared(target.id)
            if d and t in ('X', 'Y') and d != t:
                self.report(target, '%s-named %r is assigned a %s-axis value: %s' % (d, target.id, t, unparse(value)[:70]))
            if t in ('X', 'Y') and not d:
                self.env[target.id] = t
            elif t is None and not d and target.id in self.env and value is not None and not isinstance(value, ast.Constant):
                pass
        elif isinstance(target, (ast.Tuple, ast.List)) and value is not None:
            if isinstance(value, (ast.Tuple, ast.List)) and len(value.elts) == len(target.elts):
                for t, v in zip(target.elts, value.elts):
                    self._bind(t, v)
                return
            kind = self.seq_kind(value)
            n = len(target.elts)
            for k, t in enumerate(target.elts):
                if not isinstance(t, ast.Name):
                    continue
                ax = None
                if kind == 'bbox' and n == 4:
                    ax = 'X' if k in (0, 2) else 'Y'
                elif kind == 'pair' and n in (2, 3) and k < 2:
                    ax = 'X' if k == 0 else 'Y'
                if ax:
                    d = declared(t.id)
                    if d and d != ax:
                        self.report(t, '%s-named %r receives element %d (%s axis) of %s' % (d, t.id, k, ax, unparse(value)[:50]))
                    elif not d:
                        self.env[t.id] = ax

    def visit_Assign(self, n):
        self.generic_visit(n)
        for t in n.targets:
            self._bind(t, n.value)

    def visit_AugAssign(self, n):
        self.generic_visit(n)
        if isinstance(n.op, (ast.Add, ast.Sub)):
            l, r = self.tag(n.target), self.tag(n.value)
            if l in ('X', 'Y') and r in ('X', 'Y') and l != r:
                self.report(n, 'additive mix %s %s: %s' % (l, r, unparse(n)[:70]))

    def visit_For(self, n):
        # for x in xs / for y in ys keep their declared axis; (x, y) in pairs
        self.generic_visit(n)

    def visit_Subscript(self, n):
        # a row-major list index `col + row * W` (W: number of columns) joins the two axes on purpose -- the inverse of the
        # `i % W`, `i // W` decomposition; its parts are still visited, the linear form itself is not reported
        sl = n.slice
        if isinstance(sl, ast.BinOp) and isinstance(sl.op, ast.Add):
            sides = [sl.left, sl.right]
            prod = [e for e in sides if isinstance(e, ast.BinOp) and isinstance(e.op, ast.Mult)]
            other = [e for e in sides if e not in prod]
            if len(prod) == 1 and len(other) == 1 and self.tag(other[0]) in ('X', None):
                pl, pr = self.tag(prod[0].left), self.tag(prod[0].right)
                if {pl, pr} <= {'X', 'Y', None} and 'X' in (pl, pr) and (pl, pr) != ('X', 'X'):
                    self.visit(n.value)
                    for e in (other[0], prod[0].left, prod[0].right):
                        self.visit(e)
                    return
        self.generic_visit(n)

    def visit_BinOp(self, n):
        self.generic_visit(n)
        l, r = self.tag(n.left), self.tag(n.right)
        if isinstance(n.op, (ast.Add, ast.Sub)):
            if (l in ('X', 'Y') and r in ('X', 'Y') and l != r):
                self.report(n, 'additive expression mixes %s and %s axis: %s' % (l, r, unparse(n)[:70]))
            elif 'MIX' in (l, r) and not self._reported_inside(n):
                self.report(n, 'additive expression over a mixed-axis term: %s' % unparse(n)[:70])
        elif isinstance(n.op, (ast.Mult, ast.FloorDiv, ast.Mod, ast.Div)):
            if l in ('X', 'Y') and r in ('X', 'Y') and l != r and not (isinstance(n.op, ast.Mult) and self._same_sequence(n.left, n.right)):
                self.report(n, 'product/quotient mixes a %s-axis value with a %s-axis value: %s' % (l, r, unparse(n)[:70]))

    def _reported_inside(self, n):
        return any(m is not n and _inside(m, n) for m, _ in self.out)

    def visit_Compare(self, n):
        self.generic_visit(n)
        ops = [n.left] + n.comparators
        for a, b, op in zip(ops, ops[1:], n.ops):
            if isinstance(op, (ast.Lt, ast.LtE, ast.Gt, ast.GtE, ast.Eq, ast.NotEq)):
                l, r = self.tag(a), self.tag(b)
                if l in ('X', 'Y') and r in ('X', 'Y') and l != r:
                    self.report(n, 'comparison mixes %s and %s axis: %s' % (l, r, unparse(n)[:70]))

    def visit_Call(self, n):
        self.generic_visit(n)
        nm = call_name(n) or ''
        if nm in ('min', 'max') and len(n.args) >= 2:
            if all(isinstance(a, ast.Call) and call_name(a) == 'abs' for a in n.args):
                return      # magnitude estimate (tolerances), not a coordinate
            tags = [self.tag(a) for a in n.args]
            known = {t for t in tags if t in ('X', 'Y')}
            if len(known) > 1:
                self.report(n, '%s() over values of different axes: %s' % (nm, unparse(n)[:70]))
        if nm == 'range' and len(n.args) >= 2:
            # start, stop and step of one range run along one axis
            tags = [self.tag(a) for a in n.args]
            known = {t for t in tags if t in ('X', 'Y')}
            if len(known) > 1:
                self.report(n, 'range() whose start/stop/step are of different axes: %s' % unparse(n)[:70])

    def _check_pair(self, tup, what):
        """(a, b[, z]) / (minx, miny, maxx, maxy) literals: a Y value in an X slot"""
        elts = tup.elts
        if len(elts) in (2, 3):
            want = ['X', 'Y']
        elif len(elts) == 4:
            want = ['X', 'Y', 'X', 'Y']
        else:
            return
        tags = [self.tag(e) for e in elts[:len(want)]]
        if sum(1 for t in tags if t in ('X', 'Y')) < 2:
            return
        for k, (t, w) in enumerate(zip(tags, want)):
            if t in ('X', 'Y') and t != w:
                # only a swap (both slots wrong) or a clear single wrong slot among known ones
                self.report(tup, '%s has a %s-axis value in position %d (%s slot): %s' % (what, t, k, w, unparse(tup)[:70]))
                return

    def visit_Return(self, n):
        self.generic_visit(n)
        if isinstance(n.value, ast.Tuple):
            self._check_pair(n.value, 'returned tuple')

    def visit_Yield(self, n):
        self.generic_visit(n)
        if isinstance(n.value, ast.Tuple):
            for e in n.value.elts:
                if isinstance(e, ast.Tuple):
                    self._check_pair(e, 'yielded tuple')
            self._check_pair(n.value, 'yielded tuple')

    def visit_FunctionDef(self, n):
        pass

    def visit_Lambda(self, n):
        pass


def _inside(a, b):
    n = a
    while n is not None:
        if n is b:
            return True
        n = getattr(n, '_parent', None)
    return False


def axis_reports(fn):
    """[(node, message)] for a model.Fn"""
    v = Axis(fn.node)
    seen, out = set(), []
    for node, msg in v.out:
        k = (getattr(node, 'lineno', 0), getattr(node, 'col_offset', 0), msg)
        if k not in seen:
            seen.add(k)
            out.append((node, msg))
    return out
