"""Modular provenance of file-system path arguments (used by C09).

classify(fn, expr) -> set of labels:
  CONST CONFIG NUM HASH BUILDER:<name> SAN:<name>      (safe)
  REQ:<source> UNKNOWN:<why> CALL:<name> PARAM:<f>.<p>  (not safe / undecided)
Inter-procedural steps are assume/guarantee: a parameter of a helper is replaced by
the provenance of the corresponding argument at every call site in the package;
an attribute set in __init__ from a constructor parameter by the provenance of the
argument at every construction site.  Sites in mapproxy/config, mapproxy/script and
mapproxy/seed are configuration/CLI and trusted (CONFIG)."""
import ast

from .cfg import dotted, call_name, is_call, simple_name, unparse, const_value, contains
from .flow import Prov, Defs

TRUSTED_SITES = ('mapproxy/config/', 'mapproxy/script/', 'mapproxy/seed/', 'mapproxy/multiapp.py', 'mapproxy/wsgiapp.py',
                 'mapproxy/util/ext/', 'mapproxy/config_template/')

SAFE_PREFIX = ('CONST', 'CONFIG', 'NUM', 'HASH', 'BUILDER:', 'SAN:')

# functions whose result is a storage path built only from safe components (checked by C09.b)
BUILDERS = {
    'tile_location', '_tile_location', 'level_location', '_level_location', '_single_color_tile_location',
    '_get_bundle_fname_and_offset', 'lock_filename', 'legend_hash',
    'tile_location_tc', 'tile_location_mp', 'tile_location_tms', 'tile_location_reverse_tms', 'tile_location_quadkey',
    'tile_location_arcgiscache', 'level_location_tms', 'level_location_arcgiscache', 'dimensions_part', 'level_part',
}

FS_EFFECTS = {
    # callee suffix -> indices of path arguments
    'open': (0,), 'io.open': (0,), 'os.open': (0,), 'write_atomic': (0,), 'ensure_directory': (0,), 'os.mkdir': (0,),
    'os.makedirs': (0,), 'os.remove': (0,), 'os.unlink': (0,), 'os.rename': (0, 1), 'os.replace': (0, 1), 'os.link': (0, 1),
    'os.symlink': (1,), 'os.chmod': (0,), 'os.lstat': (0,), 'os.stat': (0,), 'os.rmdir': (0,), 'os.listdir': (0,),
    'os.path.exists': (0,), 'os.path.islink': (0,), 'os.path.isfile': (0,), 'os.path.isdir': (0,), 'os.path.getmtime': (0,),
    'os.path.getsize': (0,), 'os.path.lexists': (0,),
    'shutil.rmtree': (0,), 'sqlite3.connect': (0,), 'glob.glob': (0,), 'cleanup_directory': (0,), 'cleanup_lockdir': (0,),
    'FileLock': (0,), 'SemLock': (0,), 'LockFile': (0,), 'ImageSource': (0,), 'os.walk': (0,),
}


def effect_args(call):
    n = call_name(call) or ''
    for suf, idx in FS_EFFECTS.items():
        if n == suf or n.endswith('.' + suf) and '.' not in suf:
            return [call.args[i] for i in idx if i < len(call.args) and not isinstance(call.args[i], ast.Starred)]
        if n == suf:
            return [call.args[i] for i in idx if i < len(call.args)]
    return None


def safe(labels):
    return all(l.startswith(SAFE_PREFIX) for l in labels)


class PathFlow:
    def __init__(self, repo, stats=None):
        self.repo = repo
        self._attr_cache = {}
        self._param_cache = {}
        self._stack = []
        self.stats = stats if stats is not None else {}
        # alias -> classes:  bundle_class = BundleV1
        self.class_alias = {}
        for c in repo.classes.values():
            for st in c.node.body:
                if isinstance(st, ast.Assign) and isinstance(st.value, ast.Name) and isinstance(st.targets[0], ast.Name):
                    q = repo.resolve_name(c.mod, st.value)
                    if q in repo.classes:
                        self.class_alias.setdefault(st.targets[0].id, set()).add(q)
        # call index: simple callee name -> [(Fn or module, call)]
        self.calls = {}
        for fn in repo.funcs.values():
            for x in fn.walk():
                if isinstance(x, ast.Call):
                    self.calls.setdefault(simple_name(x), []).append((fn, x))

    # ------------------------------------------------------------------
    def classify(self, fn, expr, depth=4):
        key = (fn.qn, id(expr))
        if key in self._stack or depth <= 0:
            return set()
        self._stack.append(key)
        try:
            prov = Prov(fn.node, contracts={}, summaries=self._summaries(fn, depth), sanitizers=(), repo=self.repo, mod=fn.mod)
            prov._lookup = self._make_lookup(fn, prov, depth)
            labels = prov.of(expr)
            out = set()
            for l in labels:
                if l.startswith('PARAM:'):
                    out |= self._lift_param(fn, l[6:], depth)
                elif l.startswith('ATTR:self.'):
                    out |= self._attr(fn, l[10:], depth)
                else:
                    out.add(l)
            return out
        finally:
            self._stack.pop()

    def _make_lookup(self, fn, prov, depth):
        def lookup(d):
            parts = d.split('.')
            if 'coord' in parts[1:] or parts[-1] in ('tile_coord', 'coord', 'main_tile_coord'):
                return {'NUM'}      # guaranteed by C09.c: tile coordinates are integers
            if parts[-1] == 'location' and len(parts) == 2 and parts[0] in ('tile', 't'):
                return {'BUILDER:tile.location'}
            if d in ('os.sep', 'os.altsep', 'os.pathsep', 'os.curdir'):
                return {'CONST'}
            if len(parts) >= 2 and parts[0] != 'self' and d not in prov.defs.defs:
                # attribute of another object: union over the classes that define it in __init__
                cands = self._attr_owners(parts[-1])
                if cands:
                    out = set()
                    for init in cands:
                        out |= self._attr(init, parts[-1], depth - 1)
                    return out
            return None
        return lookup

    def _attr_owners(self, attr):
        if not hasattr(self, '_owners'):
            self._owners = {}
            for f in self.repo.funcs.values():
                if f.name == '__init__' and f.cls is not None:
                    for n in f.walk():
                        if isinstance(n, ast.Attribute) and isinstance(n.ctx, ast.Store) and isinstance(n.value, ast.Name) \
                                and n.value.id == 'self':
                            self._owners.setdefault(n.attr, []).append(f)
        return self._owners.get(attr, [])

    def _summaries(self, fn, depth):
        def builder(name):
            return lambda prov, call, args: {'BUILDER:' + name}
        s = {b: builder(b) for b in BUILDERS}

        def groupby(prov, call, args):
            key = None
            for k in call.keywords:
                if k.arg == 'key':
                    key = k.value
            if key is None and len(call.args) > 1:
                key = call.args[1]
            if isinstance(key, ast.Lambda):
                return prov.of(key.body)
            return {'UNKNOWN:groupby'}
        s['groupby'] = groupby
        for nm in ('relpath', 'dirname', 'abspath', 'normpath', 'basename', 'escape'):
            pass
        s['getattr'] = lambda prov, call, args: prov.of(call.args[0]) if call.args else {'UNKNOWN:getattr'}
        s['uuid4'] = lambda prov, call, args: {'HASH'}
        s['BytesIO'] = lambda prov, call, args: {'CONST'}     # in-memory buffer, not a path
        s['mkdtemp'] = lambda prov, call, args: {'CONFIG'}
        s['gettempdir'] = lambda prov, call, args: {'CONFIG'}
        return s

    # ------------------------------------------------------------------
    def _lift_param(self, fn, pname, depth):
        """provenance of parameter `pname` of fn over all call sites"""
        key = (fn.qn, pname)
        if key in self._param_cache:
            return self._param_cache[key]
        self._param_cache[key] = set()      # cycle guard
        out = set()
        if fn.name == '__init__' and fn.cls is not None:
            sites = self._ctor_sites(fn.cls)
        else:
            sites = [(f, c) for f, c in self.calls.get(fn.name, []) if self._may_call(f, c, fn)]
        params = [a.arg for a in fn.node.args.posonlyargs + fn.node.args.args]
        if params and params[0] in ('self', 'cls'):
            params = params[1:]
        defaults = fn.node.args.defaults
        default_of = {}
        allp = [a.arg for a in fn.node.args.posonlyargs + fn.node.args.args]
        for a, d in zip(allp[len(allp) - len(defaults):], defaults):
            default_of[a] = d
        for a, d in zip([k.arg for k in fn.node.args.kwonlyargs], fn.node.args.kw_defaults):
            if d is not None:
                default_of[a] = d
        if not sites:
            out.add('UNKNOWN:no-call-site:%s.%s' % (fn.short, pname))
        for f, c in sites:
            if f.file.startswith(TRUSTED_SITES):
                out.add('CONFIG')
                continue
            arg = None
            for k in c.keywords:
                if k.arg == pname:
                    arg = k.value
            if arg is None and pname in params:
                i = params.index(pname)
                if i < len(c.args) and not any(isinstance(a, ast.Starred) for a in c.args[:i + 1]):
                    arg = c.args[i]
            if arg is None:
                if any(isinstance(a, ast.Starred) for a in c.args) or any(k.arg is None for k in c.keywords):
                    out.add('UNKNOWN:star-args:%s' % f.short)
                elif pname in default_of:
                    out |= {'CONST'} if isinstance(default_of[pname], ast.Constant) else {'UNKNOWN:default'}
                else:
                    out.add('UNKNOWN:arg-not-found:%s' % f.short)
                continue
            out |= self.classify(f, arg, depth - 1)
        self._param_cache[key] = out
        return out

    def _may_call(self, f, call, target):
        """name-based: does `call` in f possibly invoke `target`?"""
        func = call.func
        if isinstance(func, ast.Name):
            q = self.repo.resolve_name(f.mod, func)
            return q == target.qn or (q is None and target.cls is None and f.mod is target.mod)
        if isinstance(func, ast.Attribute):
            if target.cls is None:
                q = self.repo.resolve_name(f.mod, func)
                return q == target.qn
            # method call: receiver self -> same class family; other receivers -> accept (over-approximate)
            if isinstance(func.value, ast.Name) and func.value.id == 'self' and f.cls is not None:
                fam = {c.qn for c in f.cls.mro()} | {c.qn for c in f.cls.subclasses()}
                tfam = {c.qn for c in target.cls.mro()} | {c.qn for c in target.cls.subclasses()}
                return bool(fam & tfam)
            return True
        return False

    def _ctor_sites(self, cls):
        names = {cls.name} | {c.name for c in cls.subclasses()}
        aliases = {a for a, qs in self.class_alias.items() if qs & ({cls.qn} | {c.qn for c in cls.subclasses()})}
        out = []
        for nm in names | aliases:
            for f, c in self.calls.get(nm, []):
                if isinstance(c.func, ast.Attribute) and c.func.attr == '__init__':
                    continue
                out.append((f, c))
        # explicit Base.__init__(self, ...) / super().__init__(...) calls forward the subclass' parameters
        for f, c in self.calls.get('__init__', []):
            if f.cls is not None and any(m.qn == cls.qn for m in f.cls.mro()[1:]) and f.name == '__init__':
                out.append((f, _shift_self(c)))
        return out

    def _attr(self, fn, attr, depth):
        """provenance of self.<attr> for the class of fn"""
        if fn.cls is None:
            return {'UNKNOWN:self.%s' % attr}
        key = (fn.cls.qn, attr)
        if key in self._attr_cache:
            return self._attr_cache[key]
        self._attr_cache[key] = set()
        out = set()
        found = False
        for c in fn.cls.mro():
            for mname in ('__init__',):
                m = c.own_method(mname)
                if m is None:
                    continue
                defs = Defs(m.node)
                for v, sel in defs.of('self.' + attr):
                    found = True
                    out |= self.classify(m, v, depth - 1)
            if found:
                break
            cv = None
            for st in c.node.body:
                if isinstance(st, ast.Assign) and any(isinstance(t, ast.Name) and t.id == attr for t in st.targets):
                    cv = st.value
            if cv is not None:
                found = True
                out |= {'CONST'} if isinstance(cv, ast.Constant) else {'CONFIG'}
                break
        if not found:
            # assigned in another method of the class
            for c in fn.cls.mro():
                for st in c.node.body:
                    if isinstance(st, ast.FunctionDef):
                        m = self.repo.funcs.get(c.qn + '.' + st.name)
                        if m is None:
                            continue
                        defs = Defs(m.node)
                        for v, sel in defs.of('self.' + attr):
                            found = True
                            out |= self.classify(m, v, depth - 1)
        if not found:
            out.add('UNKNOWN:self.%s' % attr)
        self._attr_cache[key] = out
        return out


def _shift_self(call):
    """Base.__init__(self, a, b) -> pseudo call with args (a, b)"""
    if isinstance(call.func, ast.Attribute) and isinstance(call.func.value, ast.Name) and call.args and \
            isinstance(call.args[0], ast.Name) and call.args[0].id == 'self':
        c2 = ast.Call(func=call.func, args=call.args[1:], keywords=call.keywords)
        ast.copy_location(c2, call)
        return c2
    return call
