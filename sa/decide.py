"""Decision tables: abstract execution of a small predicate function (or loop
body) under every truth assignment of its syntactic test atoms.  Atoms are
uninterpreted booleans; no repository code runs."""
import ast
import itertools

from .cfg import literals, all_atoms, eval_struct, unparse
from .model import Undecided

MAX_ATOMS = 14


class _Outcome(Exception):
    def __init__(self, node):
        self.node = node


class Table:
    def __init__(self, atoms, rows, events):
        self.atoms = atoms            # sorted list of atom texts
        self.rows = rows              # tuple(bool..) -> outcome label
        self.events = events          # tuple(bool..) -> tuple of event labels
        self.atom_objs = {}

    def assignments(self):
        for vals in self.rows:
            yield dict(zip(self.atoms, vals)), self.rows[vals], self.events[vals]

    def outcomes(self):
        return set(self.rows.values())

    def find_atom(self, *needles):
        """unique atom text containing all needles"""
        c = [a for a in self.atoms if all(n in a for n in needles)]
        if len(c) != 1:
            raise Undecided('atom %r: %d candidates among %s' % (needles, len(c), self.atoms))
        return c[0]

    def find_atoms(self, *needles):
        return [a for a in self.atoms if all(n in a for n in needles)]


def _collect(stmts, out, objs, descend_loops):
    for st in stmts:
        if isinstance(st, ast.If):
            for at, pol in all_atoms(st.test):
                out.add(at.text)
                objs.setdefault(at.text, at)
            _collect(st.body, out, objs, descend_loops)
            _collect(st.orelse, out, objs, descend_loops)
        elif isinstance(st, (ast.With, ast.AsyncWith)):
            _collect(st.body, out, objs, descend_loops)
        elif isinstance(st, ast.Try):
            _collect(st.body, out, objs, descend_loops)
            _collect(st.orelse, out, objs, descend_loops)
            _collect(st.finalbody, out, objs, descend_loops)
        elif isinstance(st, (ast.For, ast.While)) and descend_loops:
            _collect(st.body, out, objs, descend_loops)
        elif isinstance(st, ast.Assert):
            pass


def _run(stmts, asg, events, event_of, terminal_yield, descend_loops):
    for st in stmts:
        if event_of is not None:
            ev = event_of(st)
            if ev is not None:
                events.append(ev)
        if isinstance(st, ast.If):
            branch = st.body if eval_struct(literals(st.test), asg) else st.orelse
            _run(branch, asg, events, event_of, terminal_yield, descend_loops)
        elif isinstance(st, (ast.Return, ast.Raise, ast.Continue, ast.Break)):
            raise _Outcome(st)
        elif terminal_yield and isinstance(st, ast.Expr) and isinstance(st.value, (ast.Yield, ast.YieldFrom)):
            raise _Outcome(st)
        elif isinstance(st, (ast.With, ast.AsyncWith)):
            _run(st.body, asg, events, event_of, terminal_yield, descend_loops)
        elif isinstance(st, ast.Try):
            _run(st.body, asg, events, event_of, terminal_yield, descend_loops)
            _run(st.orelse, asg, events, event_of, terminal_yield, descend_loops)
            _run(st.finalbody, asg, events, event_of, terminal_yield, descend_loops)
        elif isinstance(st, (ast.For, ast.While)) and descend_loops:
            try:
                _run(st.body, asg, events, event_of, terminal_yield, descend_loops)
            except _Outcome as o:
                if not isinstance(o.node, (ast.Continue, ast.Break)):
                    raise


def table(stmts, classify, event_of=None, terminal_yield=True, descend_loops=False):
    """classify(node or None) -> outcome label; event_of(stmt) -> label or None"""
    atoms, objs = set(), {}
    _collect(stmts, atoms, objs, descend_loops)
    atoms = sorted(atoms)
    if len(atoms) > MAX_ATOMS:
        raise Undecided('decision table with %d atoms' % len(atoms))
    rows, evs = {}, {}
    for vals in itertools.product([False, True], repeat=len(atoms)):
        asg = dict(zip(atoms, vals))
        events = []
        try:
            _run(stmts, asg, events, event_of, terminal_yield, descend_loops)
            out = classify(None)
        except _Outcome as o:
            out = classify(o.node)
        rows[vals] = out
        evs[vals] = tuple(events)
    t = Table(atoms, rows, evs)
    t.atom_objs = objs
    return t


def expr_table(test):
    """truth table of a single boolean expression"""
    s = literals(test)
    atoms = sorted({at.text for at, _ in all_atoms(test)})
    if len(atoms) > MAX_ATOMS:
        raise Undecided('expression with %d atoms' % len(atoms))
    rows = {}
    for vals in itertools.product([False, True], repeat=len(atoms)):
        rows[vals] = eval_struct(s, dict(zip(atoms, vals)))
    t = Table(atoms, rows, {v: () for v in rows})
    t.atom_objs = {at.text: at for at, _ in all_atoms(test)}
    return t


def compare(tab, expected):
    """expected(asg dict, events) -> outcome label or None (don't care).
    Returns list of mismatching rows as (asg, got, want)."""
    bad = []
    for asg, got, events in tab.assignments():
        want = expected(asg, events)
        if want is not None and want != got:
            bad.append((asg, got, want))
    return bad


def show_row(asg):
    return ', '.join('%s=%s' % (k, 'T' if v else 'F') for k, v in sorted(asg.items()))


def ret_kind(node):
    """generic classifier pieces"""
    if node is None:
        return 'fall'
    if isinstance(node, ast.Return):
        v = node.value
        if v is None or (isinstance(v, ast.Constant) and v.value is None):
            return 'return None'
        if isinstance(v, ast.Constant):
            return 'return %r' % (v.value,)
        return 'return ' + unparse(v)
    if isinstance(node, ast.Raise):
        return 'raise ' + (unparse(node.exc) if node.exc else '')
    if isinstance(node, ast.Continue):
        return 'continue'
    if isinstance(node, ast.Break):
        return 'break'
    if isinstance(node, ast.Expr):
        return 'yield ' + unparse(node.value.value) if getattr(node.value, 'value', None) is not None else 'yield'
    return type(node).__name__
