"""Decision tables: abstract execution of a small predicate function (or loop
body) under every truth assignment of its syntactic test atoms.  Atoms are
uninterpreted booleans; no repository code runs."""
import ast
import itertools

from .cfg import literals, all_atoms, eval_struct, unparse, norm_cmp
from .model import Undecided

MAX_ATOMS = 14


class _Outcome(Exception):
    def __init__(self, node):
        self.node = node


class Table:
    def __init__(self, atoms, rows, events):
        self.atoms = atoms            # sorted list of atom texts
        self.rows = rows              # tuple(bool..) -> outcome label
        self.events = events          # tuple(bool..) -> tuple of event labels
        self.atom_objs = {}

    def assignments(self):
        for vals in self.rows:
            yield dict(zip(self.atoms, vals)), self.rows[vals], self.events[vals]

    def outcomes(self):
        return set(self.rows.values())

    def find_atom(self, *needles):
        """unique atom text containing all needles"""
        c = [a for a in self.atoms if all(n in a for n in needles)]
        if len(c) != 1:
            raise Undecided('atom %r: %d candidates among %s' % (needles, len(c), self.atoms))
        return c[0]

    def find_atoms(self, *needles):
        return [a for a in self.atoms if all(n in a for n in needles)]


def _boolform(v):
    return (isinstance(v, ast.Constant) and isinstance(v.value, bool)) or isinstance(v, (ast.Compare, ast.BoolOp)) or \
        (isinstance(v, ast.UnaryOp) and isinstance(v.op, ast.Not)) or \
        (isinstance(v, ast.Call) and isinstance(v.func, ast.Name) and v.func.id == 'bool' and len(v.args) == 1)


def _flag_names(stmts, descend_loops):
    """locals whose truth value is followed through the abstract run instead of being a free atom: every binding in the
    analysed statements is a plain assignment and at least one assigns a boolean form (True/False, comparison, not/and/or)"""
    vals = {}

    def bind(t, v):
        for n in ast.walk(t):
            if isinstance(n, ast.Name):
                vals.setdefault(n.id, []).append(v if isinstance(t, ast.Name) else None)

    def rec(body):
        for st in body:
            if isinstance(st, ast.Assign):
                for t in st.targets:
                    bind(t, st.value)
            elif isinstance(st, (ast.AugAssign, ast.AnnAssign)):
                bind(st.target, None)
            elif isinstance(st, (ast.For, ast.AsyncFor)):
                bind(st.target, None)
                if descend_loops:
                    rec(st.body)
                else:
                    for n in ast.walk(st):          # bindings inside a loop that is not run: not trackable
                        if isinstance(n, ast.Name) and isinstance(n.ctx, ast.Store):
                            vals.setdefault(n.id, []).append(None)
            elif isinstance(st, ast.While):
                if descend_loops:
                    rec(st.body)
                else:
                    for n in ast.walk(st):
                        if isinstance(n, ast.Name) and isinstance(n.ctx, ast.Store):
                            vals.setdefault(n.id, []).append(None)
            elif isinstance(st, (ast.With, ast.AsyncWith)):
                for it in st.items:
                    if it.optional_vars is not None:
                        bind(it.optional_vars, None)
                rec(st.body)
            elif isinstance(st, ast.If):
                rec(st.body)
                rec(st.orelse)
            elif isinstance(st, ast.Try):
                rec(st.body)
                rec(st.orelse)
                rec(st.finalbody)
                for h in st.handlers:
                    if h.name:
                        vals.setdefault(h.name, []).append(None)
                    for n in ast.walk(h):
                        if isinstance(n, ast.Name) and isinstance(n.ctx, ast.Store):
                            vals.setdefault(n.id, []).append(None)
    rec(stmts)
    returned = set()
    if _OPT['bool_returns']:
        for st in stmts:
            for n in ast.walk(st):
                if isinstance(n, ast.Return) and isinstance(n.value, ast.Name):
                    returned.add(n.value.id)
    # sentinel pattern only: some binding is the constant None
    _flag_names.trackable = {n for n, vs in vals.items() if all(v is not None for v in vs) and
                             any(isinstance(v, ast.Constant) and v.value is None for v in vs)}
    return {n for n, vs in vals.items() if all(v is not None for v in vs) and (any(_boolform(v) for v in vs) or n in returned)}


_NONE = ast.Constant(value=None)


def _none_atom(expr):
    """the canonical atom `expr == None`"""
    return norm_cmp(expr, ast.Is(), _NONE)[0]


def _tests_of(stmts, descend_loops):
    out = []
    for st in stmts:
        if isinstance(st, ast.If):
            out.append(st.test)
            out.extend(_tests_of(st.body, descend_loops))
            out.extend(_tests_of(st.orelse, descend_loops))
        elif isinstance(st, (ast.With, ast.AsyncWith)):
            out.extend(_tests_of(st.body, descend_loops))
        elif isinstance(st, ast.Try):
            for b in (st.body, st.orelse, st.finalbody):
                out.extend(_tests_of(b, descend_loops))
        elif isinstance(st, (ast.For, ast.While)) and descend_loops:
            out.extend(_tests_of(st.body, descend_loops))
    return out


def _none_names(stmts, descend_loops, trackable):
    """trackable locals that are tested against None: their None-ness is followed through the run (sentinel results:
    `r = None ... r = value ... if r is not None:`)"""
    out = set()
    for t in _tests_of(stmts, descend_loops):
        for at, pol in all_atoms(t):
            if at.op == '==' and isinstance(at.right, ast.Constant) and at.right.value is None and isinstance(at.left, ast.Name) \
                    and at.left.id in trackable:
                out.add(at.left.id)
            elif at.op == '==' and isinstance(at.left, ast.Constant) and at.left.value is None and isinstance(at.right, ast.Name) \
                    and at.right.id in trackable:
                out.add(at.right.id)
    return out


def _alias_map(stmts, descend_loops, exclude):
    """locals bound exactly once (by a plain assignment in the analysed statements) to a name / attribute chain that is not
    itself stored to: tests on the local are tests on that expression (`opacity = self.opacity ... if opacity is not None`)"""
    vals = {}
    stored = set()

    def rec(body):
        for st in body:
            for n in ast.walk(st):
                if isinstance(n, ast.Attribute) and isinstance(n.ctx, (ast.Store, ast.Del)):
                    stored.add(unparse(n))
                elif isinstance(n, ast.Name) and isinstance(n.ctx, (ast.Store, ast.Del)):
                    vals.setdefault(n.id, []).append(None)
            if isinstance(st, ast.Assign) and len(st.targets) == 1 and isinstance(st.targets[0], ast.Name):
                vals[st.targets[0].id][-1] = st.value
    rec(stmts)

    def chain(e):
        return isinstance(e, ast.Name) or (isinstance(e, ast.Attribute) and chain(e.value))
    out = {}
    for n, vs in vals.items():
        if len(vs) == 1 and vs[0] is not None and isinstance(vs[0], ast.Attribute) and chain(vs[0]) and n not in exclude:
            root = vs[0]
            while isinstance(root, ast.Attribute):
                root = root.value
            if unparse(vs[0]) not in stored and root.id not in vals:
                out[n] = vs[0]
    return out


class _Alias(ast.NodeTransformer):
    def __init__(self, m):
        self.m = m

    def visit_Name(self, node):
        if isinstance(node.ctx, ast.Load) and node.id in self.m:
            return self.m[node.id]
        return node


def _unalias(test):
    m = _OPT.get('aliases')
    if not m or not any(isinstance(n, ast.Name) and n.id in m for n in ast.walk(test)):
        return test
    import copy
    return _Alias(m).visit(copy.deepcopy(_strip(test)))


def _strip(e):
    """copy of an expression without the model's parent links"""
    import copy
    if isinstance(e, list):
        return [_strip(x) for x in e]
    if not isinstance(e, ast.AST):
        return e
    new = copy.copy(e)
    if hasattr(new, '_parent'):
        del new._parent
    for fld, val in ast.iter_fields(e):
        setattr(new, fld, _strip(val))
    return new


class _Env:
    """atom text -> bool: tracked flags first, then the row's assignment (recording which atoms were consulted)"""

    def __init__(self, asg, used):
        self.asg, self.flags, self.used = asg, {}, used

    def __getitem__(self, k):
        if k in self.flags:
            return self.flags[k]
        self.used.add(k)
        return self.asg[k]


_OPT = {'bool_returns': False}


def _collect(stmts, out, objs, descend_loops, flags=()):
    for st in stmts:
        if isinstance(st, ast.Assign) and len(st.targets) == 1 and isinstance(st.targets[0], ast.Name) and \
                st.targets[0].id in _OPT.get('none_names', ()) and not isinstance(st.value, ast.Constant):
            at = _none_atom(st.value)
            out.add(at.text)
            objs.setdefault(at.text, at)
        if _OPT['bool_returns'] and isinstance(st, ast.Return) and st.value is not None and _boolform(st.value):
            for at, pol in all_atoms(st.value):
                out.add(at.text)
                objs.setdefault(at.text, at)
        if isinstance(st, ast.Assign) and len(st.targets) == 1 and isinstance(st.targets[0], ast.Name) and st.targets[0].id in flags:
            for at, pol in all_atoms(st.value):
                out.add(at.text)
                objs.setdefault(at.text, at)
        if isinstance(st, ast.If):
            for at, pol in all_atoms(_unalias(st.test)):
                out.add(at.text)
                objs.setdefault(at.text, at)
            _collect(st.body, out, objs, descend_loops, flags)
            _collect(st.orelse, out, objs, descend_loops, flags)
        elif isinstance(st, (ast.With, ast.AsyncWith)):
            _collect(st.body, out, objs, descend_loops, flags)
        elif isinstance(st, ast.Try):
            _collect(st.body, out, objs, descend_loops, flags)
            _collect(st.orelse, out, objs, descend_loops, flags)
            _collect(st.finalbody, out, objs, descend_loops, flags)
        elif isinstance(st, (ast.For, ast.While)) and descend_loops:
            _collect(st.body, out, objs, descend_loops, flags)
        elif isinstance(st, ast.Assert):
            pass


def _run(stmts, asg, events, event_of, terminal_yield, descend_loops):
    for st in stmts:
        if event_of is not None:
            if getattr(event_of, 'wants_env', False):
                # the event function may ask for the truth value of an expression in the current abstract state
                ev = event_of(st, lambda e: eval_struct(literals(e), asg))
            else:
                ev = event_of(st)
            if ev is not None:
                events.append(ev)
        if isinstance(asg, _Env) and isinstance(st, ast.Assign) and len(st.targets) == 1 and isinstance(st.targets[0], ast.Name) and \
                st.targets[0].id in asg.none_names:
            key = _none_atom(st.targets[0]).text
            if isinstance(st.value, ast.Constant):
                asg.flags[key] = st.value.value is None
            else:
                asg.flags[key] = asg[_none_atom(st.value).text]
        if isinstance(asg, _Env) and isinstance(st, ast.Assign) and len(st.targets) == 1 and isinstance(st.targets[0], ast.Name) and \
                st.targets[0].id in asg.tracked:
            asg.flags[st.targets[0].id] = eval_struct(literals(st.value), asg)
        if isinstance(st, ast.If):
            branch = st.body if eval_struct(literals(_unalias(st.test)), asg) else st.orelse
            _run(branch, asg, events, event_of, terminal_yield, descend_loops)
        elif isinstance(st, (ast.Return, ast.Raise, ast.Continue, ast.Break)):
            if _OPT['bool_returns'] and isinstance(st, ast.Return) and isinstance(st.value, ast.Name) and isinstance(asg, _Env) and \
                    st.value.id in asg.flags:
                raise _Outcome(ast.copy_location(ast.Return(value=ast.Constant(value=bool(asg.flags[st.value.id]))), st))
            if _OPT['bool_returns'] and isinstance(st, ast.Return) and st.value is not None and _boolform(st.value) and \
                    not isinstance(st.value, ast.Constant):
                raise _Outcome(ast.copy_location(ast.Return(value=ast.Constant(value=bool(eval_struct(literals(st.value), asg)))), st))
            raise _Outcome(st)
        elif terminal_yield and isinstance(st, ast.Expr) and isinstance(st.value, (ast.Yield, ast.YieldFrom)):
            raise _Outcome(st)
        elif isinstance(st, (ast.With, ast.AsyncWith)):
            _run(st.body, asg, events, event_of, terminal_yield, descend_loops)
        elif isinstance(st, ast.Try):
            _run(st.body, asg, events, event_of, terminal_yield, descend_loops)
            _run(st.orelse, asg, events, event_of, terminal_yield, descend_loops)
            _run(st.finalbody, asg, events, event_of, terminal_yield, descend_loops)
        elif isinstance(st, (ast.For, ast.While)) and descend_loops:
            try:
                _run(st.body, asg, events, event_of, terminal_yield, descend_loops)
            except _Outcome as o:
                if not isinstance(o.node, (ast.Continue, ast.Break)):
                    raise


def table(stmts, classify, event_of=None, terminal_yield=True, descend_loops=False, bool_returns=False):
    """classify(node or None) -> outcome label; event_of(stmt) -> label or None.
    bool_returns: `return <comparison / not / and / or>` is evaluated and classified as `return True` / `return False`"""
    _OPT['bool_returns'] = bool_returns
    try:
        return _table(stmts, classify, event_of, terminal_yield, descend_loops)
    finally:
        _OPT['bool_returns'] = False
        _OPT['none_names'] = ()
        _OPT['aliases'] = {}


def _table(stmts, classify, event_of, terminal_yield, descend_loops):
    atoms, objs = set(), {}
    flags = _flag_names(stmts, descend_loops)
    nones = _none_names(stmts, descend_loops, _flag_names.trackable)
    _OPT['none_names'] = nones
    _OPT['aliases'] = _alias_map(stmts, descend_loops, set(flags) | set(nones))
    _collect(stmts, atoms, objs, descend_loops, flags)
    atoms = sorted(atoms)
    if len(atoms) > MAX_ATOMS:
        raise Undecided('decision table with %d atoms' % len(atoms))
    rows, evs = {}, {}
    used = set()
    for vals in itertools.product([False, True], repeat=len(atoms)):
        asg = _Env(dict(zip(atoms, vals)), used)
        asg.tracked = flags
        asg.none_names = nones
        events = []
        try:
            _run(stmts, asg, events, event_of, terminal_yield, descend_loops)
            out = classify(None)
        except _Outcome as o:
            out = classify(o.node)
        rows[vals] = out
        evs[vals] = tuple(events)
    # a tracked flag that was never read before its first assignment is not an input of the table
    none_keys = {_none_atom(ast.Name(id=n, ctx=ast.Load())).text for n in nones}
    drop = [i for i, a in enumerate(atoms) if (a in flags or a in none_keys) and a not in used]
    if drop:
        keep = [i for i in range(len(atoms)) if i not in drop]
        atoms = [atoms[i] for i in keep]
        rows = {tuple(v[i] for i in keep): o for v, o in rows.items()}
        evs = {tuple(v[i] for i in keep): o for v, o in evs.items()}
    t = Table(atoms, rows, evs)
    t.atom_objs = objs
    return t


def expr_table(test):
    """truth table of a single boolean expression"""
    s = literals(test)
    atoms = sorted({at.text for at, _ in all_atoms(test)})
    if len(atoms) > MAX_ATOMS:
        raise Undecided('expression with %d atoms' % len(atoms))
    rows = {}
    for vals in itertools.product([False, True], repeat=len(atoms)):
        rows[vals] = eval_struct(s, dict(zip(atoms, vals)))
    t = Table(atoms, rows, {v: () for v in rows})
    t.atom_objs = {at.text: at for at, _ in all_atoms(test)}
    return t


def compare(tab, expected):
    """expected(asg dict, events) -> outcome label or None (don't care).
    Returns list of mismatching rows as (asg, got, want)."""
    bad = []
    for asg, got, events in tab.assignments():
        want = expected(asg, events)
        if want is not None and want != got:
            bad.append((asg, got, want))
    return bad


def show_row(asg):
    return ', '.join('%s=%s' % (k, 'T' if v else 'F') for k, v in sorted(asg.items()))


def ret_kind(node):
    """generic classifier pieces"""
    if node is None:
        return 'fall'
    if isinstance(node, ast.Return):
        v = node.value
        if v is None or (isinstance(v, ast.Constant) and v.value is None):
            return 'return None'
        if isinstance(v, ast.Constant):
            return 'return %r' % (v.value,)
        return 'return ' + unparse(v)
    if isinstance(node, ast.Raise):
        return 'raise ' + (unparse(node.exc) if node.exc else '')
    if isinstance(node, ast.Continue):
        return 'continue'
    if isinstance(node, ast.Break):
        return 'break'
    if isinstance(node, ast.Expr):
        return 'yield ' + unparse(node.value.value) if getattr(node.value, 'value', None) is not None else 'yield'
    return type(node).__name__
