#!/venv/bin/python
"""Confirms a seeded change delivered by a sub-agent and runs the checkers against it.
usage: seed_eval.py <seed_dir> <id> [--no-suite]
 1. fresh scratch worktree of /repo HEAD under /tmp, patch applied
 2. demo on the changed tree must fail, demo on /repo must pass
 3. baseline suite on the changed tree (private network namespace): failing set must equal the baseline's
 4. all 20 quick checks against the changed tree (--repo), reported rule instances collected
 5. worktree removed.  Result -> <seed_dir>/eval.json"""
import json
import os
import subprocess
import sys
import xml.etree.ElementTree as ET

BASE_JUNIT = '/tmp/base_fixed.xml'


def sh(cmd, **kw):
    return subprocess.run(cmd, shell=True, capture_output=True, text=True, **kw)


def junit(p):
    r = {}
    for tc in ET.parse(p).getroot().iter('testcase'):
        k = tc.get('classname', '') + '::' + tc.get('name', '')
        st = 'pass'
        for ch in tc:
            if ch.tag in ('failure', 'error'):
                st = 'fail'
            elif ch.tag == 'skipped':
                st = 'skip'
        r[k] = st
    return r


def main():
    seed, sid = sys.argv[1], sys.argv[2]
    nosuite = '--no-suite' in sys.argv
    checks_only = '--checks-only' in sys.argv
    wt = '/tmp/val_%s' % sid
    res = {'id': sid, 'seed_dir': seed}
    if checks_only and os.path.exists(os.path.join(seed, 'eval.json')):
        res = json.load(open(os.path.join(seed, 'eval.json')))
    sh('git -C /repo worktree remove --force %s' % wt)
    r = sh('git -C /repo worktree add -q --detach %s HEAD' % wt)
    if r.returncode:
        res['error'] = 'worktree: ' + r.stderr
        print(json.dumps(res))
        return
    try:
        patch = os.path.join(seed, 'patch.diff')
        r = sh('git -C %s apply %s' % (wt, patch))
        res['patch_applies'] = r.returncode == 0
        if r.returncode:
            res['error'] = 'apply: ' + r.stderr[-400:]
            return
        res['files'] = sh('git -C %s diff --stat' % wt).stdout.strip().splitlines()[-1:]
        demo = os.path.join(seed, 'demo.py')
        if checks_only:
            nosuite = True
        d1 = None if checks_only else sh('cd /tmp && PYTHONPATH=%s timeout 600 /venv/bin/python %s' % (wt, demo))
        d0 = None if checks_only else sh('cd /tmp && PYTHONPATH=/repo timeout 600 /venv/bin/python %s' % demo)
        if checks_only:
            raise_skip = True
        else:
            raise_skip = False
        if not raise_skip:
          res['demo_changed_exit'] = d1.returncode
          res['demo_changed_tail'] = (d1.stdout + d1.stderr)[-600:]
          res['demo_unchanged_exit'] = d0.returncode
          res['demo_unchanged_tail'] = (d0.stdout + d0.stderr)[-300:]
        if not nosuite:
            jx = '/tmp/val_%s.junit.xml' % sid
            s = sh('cd %s && unshare -n sh -c "ip link set lo up; PYTHONPATH=%s timeout 1500 /venv/bin/python -m pytest -ra -q -p no:cacheprovider '
                   '--timeout=900 --continue-on-collection-errors --junitxml=%s"' % (wt, wt, jx))
            res['suite_tail'] = s.stdout.strip().splitlines()[-1:] if s.stdout else [s.stderr[-200:]]
            if os.path.exists(jx) and os.path.exists(BASE_JUNIT):
                a, b = junit(BASE_JUNIT), junit(jx)
                pa = {k for k, v in a.items() if v == 'pass'}
                pb = {k for k, v in b.items() if v == 'pass'}
                res['suite_newly_failing'] = sorted(pa - pb)[:10]
                res['suite_survives'] = not (pa - pb)
                os.remove(jx)
        reported, errors = [], []
        for i in range(1, 21):
            p = 'C%02d' % i
            c = sh('/venv/bin/python %s/sa/check.py %s --repo %s --no-evidence' % (os.environ.get('VERIF_DIR', '/verif'), p, wt))
            for line in c.stdout.splitlines():
                if line.startswith('  C') and ':' in line:
                    reported.append(line.strip()[:260])
                if line.startswith('ANALYSIS-ERROR'):
                    errors.append(line[:260])
        res['reported'] = reported
        res['analysis_errors'] = errors
        res['detected'] = bool(reported)
    finally:
        sh('git -C /repo worktree remove --force %s' % wt)
        with open(os.path.join(seed, 'eval.json'), 'w') as fh:
            json.dump(res, fh, indent=1)
        print(json.dumps({k: res.get(k) for k in ('id', 'patch_applies', 'demo_changed_exit', 'demo_unchanged_exit', 'suite_survives', 'suite_tail', 'detected', 'error')}))
        for r in res.get('reported', [])[:6]:
            print('   ', r[:200])


if __name__ == '__main__':
    main()
