#!/bin/sh
# copy delivered refactorings of a campaign (prefix rf2 -> ids r2-<pair>-<n>) into /verif/refactorings
pfx=${1:-rf2}; tag=${2:-r2}
for d in /tmp/${pfx}_C??_C??; do
  pair=$(basename $d | sed "s/^${pfx}_//")
  for n in 1 2 3 4; do
    if [ -f $d/_refactor/$n/patch.diff ] && [ -f $d/_refactor/$n/notes.md ]; then
      mkdir -p /verif/refactorings/${tag}-${pair}-$n
      cp $d/_refactor/$n/patch.diff $d/_refactor/$n/notes.md /verif/refactorings/${tag}-${pair}-$n/
    fi
  done
done
ls /verif/refactorings | grep -c "^${tag}-"
