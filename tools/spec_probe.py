import sys, ast, subprocess, os, tempfile, shutil
sys.path.insert(0, '/verif')
from sa.model import Repo
from sa.special import specialise
from sa.simplify import literal_tables
qn = sys.argv[1]; bind = eval(sys.argv[2]); patch = sys.argv[3] if len(sys.argv) > 3 else None
root = '/repo'
if patch:
    root = tempfile.mkdtemp(prefix='cp_')
    subprocess.check_call('git -C /repo archive HEAD mapproxy | tar -x -C %s' % root, shell=True)
    subprocess.check_call(['git', 'apply', '--directory', root.lstrip('/'), '--unsafe-paths', os.path.abspath(patch)], cwd='/')
repo = Repo(root)
fn = repo.fn(qn)
tabs = literal_tables_all = {}
from sa.special import module_tables
print(ast.unparse(specialise(fn.node, bind, module_tables(fn.mod.tree))))
if patch: shutil.rmtree(root)
