#!/venv/bin/python
"""Print a function as the rules see it after inlining (sa/inline.py): show_normalised.py <qualified name> [--patch file] [--repo root]"""
import ast
import os
import sys
sys.path.insert(0, os.path.join(os.path.dirname(os.path.abspath(__file__)), '..'))
from sa.model import Repo  # noqa
from sa import selftest  # noqa
import argparse
ap = argparse.ArgumentParser()
ap.add_argument('qn')
ap.add_argument('--patch')
ap.add_argument('--repo', default='/repo')
a = ap.parse_args()
overlay = None
if a.patch:
    overlay, err = selftest._apply_patch(a.repo, os.path.abspath(a.patch))
    if err:
        sys.exit(err)
r = Repo(a.repo, overlay=overlay)
for x in r.inline_report:
    print('#', x)
print(ast.unparse(r.fn(a.qn).node))
