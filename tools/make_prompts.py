#!/venv/bin/python
"""make_prompts.py <round tag, e.g. 4>: scratch worktrees /tmp/rf<k>_<pair>, /tmp/seed<k>_<Cxx> of /repo HEAD and the prompt files
/tmp/rf<k>_prompt_<pair>.txt, /tmp/seed<k>_prompt_<Cxx>.txt for the sub-agent campaigns (templates in tools/prompts/).  The prompts
name what earlier rounds already touched so that a new round exercises other code."""
import glob
import json
import os
import re
import subprocess
import sys

V = os.path.join(os.path.dirname(os.path.abspath(__file__)), '..')
k = sys.argv[1]
props = {}
for ln in open(os.path.join(V, 'properties.jsonl')):
    p = json.loads(ln)
    props[p['id']] = p
ids = sorted(props)
pairs = [(ids[i], ids[i + 1]) for i in range(0, len(ids), 2)]


def sh(cmd):
    return subprocess.run(cmd, shell=True, capture_output=True, text=True)


def touched_functions(patches):
    out = []
    for pth in patches:
        for ln in open(pth, errors='replace'):
            m = re.match(r'^@@ .* @@\s*(?:class|def)\s+(\w+)', ln) or re.match(r'^[-+ ]\s*def\s+(\w+)', ln)
            if m and m.group(1) not in out and not m.group(1).startswith('__'):
                out.append(m.group(1))
    return out


rt = open(os.path.join(V, 'tools/prompts/refactor_prompt_template.txt')).read()
if os.environ.get('NO_REFACTOR'):
    pairs = []
for a, b in pairs:
    pair = '%s_%s' % (a, b)
    wt = '/tmp/rf%s_%s' % (k, pair)
    sh('git -C /repo worktree remove --force %s' % wt)
    r = sh('git -C /repo worktree add -q --detach %s HEAD' % wt)
    assert r.returncode == 0, r.stderr
    files = sorted(set(props[a]['anchors']['files']) | set(props[b]['anchors']['files']))
    ptxt = '\n\n'.join('%s — %s\n%s' % (x, props[x]['title'], props[x]['statement']) for x in (a, b))
    used = touched_functions(sorted(glob.glob(os.path.join(V, 'refactorings', '*%s-*' % pair, 'patch.diff'))))
    txt = rt.replace('{WT}', wt).replace('{PROPS}', ptxt).replace('{FILES}', ', '.join(files))
    extra = ('\n\nThis is a LATER round. Earlier rounds already refactored the functions listed below; choose OTHER functions that take part in the '
             'two properties\' mechanisms (request parsing classes, the configuration loader code that wires these components, helper modules, less '
             'prominent backends such as the geopackage / sqlite level caches or the s3/redis/couchdb caches, the KML/WMTS/TMS services, the seeding '
             'and cleanup scripts, image helpers, coverage / geometry helpers, the demo / multiapp / wsgi layer ...):\n' + ', '.join(used) + '.\n'
             'Prefer refactorings a maintainer does in a clean-up sprint and COMBINE several idioms in one refactoring: table / dict dispatch instead of '
             'if-chains (or back); a block of a long method moved into a new private method that takes and returns several values; near-duplicate '
             'methods of sibling classes merged into a shared base-class helper, a mixin or a module function (possibly with a callback or flag '
             'parameter); a method moved up into a base class; named intermediate flags / results; guard clauses; while <-> for; context managers; '
             'keyword arguments; named module constants instead of literals; dataclass-like helper objects or small namedtuples instead of tuples; '
             'generator helpers; sorted()/any()/all()/next() idioms instead of loops; f-strings / % formatting. Do not rename or delete existing '
             'public or private functions/methods (adding new private ones is fine). Do NOT use `git stash` (the stash is shared between all '
             'worktrees of this repository); use `git diff > file`, `git checkout -- .`, `git apply file`.\n')
    txt = txt.replace('\nYour job: produce FOUR', extra + '\nYour job: produce FOUR', 1)
    open('/tmp/rf%s_prompt_%s.txt' % (k, pair), 'w').write(txt)

st = open(os.path.join(V, 'tools/prompts/seed_prompt_template.txt')).read()
only = [x for x in os.environ.get('SEED_ONLY', '').split(',') if x]
for pid in (only or ids):
    wt = '/tmp/seed%s_%s' % (k, pid)
    sh('git -C /repo worktree remove --force %s' % wt)
    r = sh('git -C /repo worktree add -q --detach %s HEAD' % wt)
    assert r.returncode == 0, r.stderr
    p = props[pid]
    ptxt = '%s — %s\n%s\n\nQuantified over: %s\n\nWhy the existing tests do not settle it: %s' % (
        pid, p['title'], p['statement'], p['quantifier']['text'], p['why_tests_cant'])
    open(os.path.join(wt, 'PROPERTY.txt'), 'w').write(ptxt + '\n')
    earlier = []
    for mp in sorted(glob.glob(os.path.join(V, 'seeded', pid + '-*', 'meta.json'))):
        m = json.load(open(mp))
        fl = ' '.join(touched_functions([os.path.join(os.path.dirname(mp), 'patch.diff')])[:4])
        earlier.append('- %s (%s)' % (' '.join(m.get('what_it_needs_to_manifest', '').split())[:230], fl))
    txt = st.replace('{WT}', wt).replace('{PROP}', ptxt)
    extra = ('\n\nThis is a LATER round. Earlier rounds already delivered the changes summarised below; do NOT repeat their mechanisms or touch the same '
             'functions -- look for OTHER places where the property can be broken: other clauses of the statement, other files among those that '
             'implement it, the configuration loader that wires the components together, sibling implementations (other backends / services / request '
             'classes / sources), helper modules, error paths, defaults, and interactions of two components that each look fine alone.\n'
             + '\n'.join(earlier) + '\n'
             'Do NOT use `git stash` (the stash is shared between all worktrees of this repository); use `git diff > file`, `git checkout -- .`, '
             '`git apply file`.\nIf, while exploring, you find that the UNCHANGED tree already violates the property somewhere, say so in your final answer '
             '(file, function, input) -- that is valuable too -- but keep your two demos on paths where the unchanged tree is correct.\n')
    txt = txt.replace('\nYour job: produce TWO', extra + '\nYour job: produce TWO', 1).replace(' (or `git stash`)', '')
    open('/tmp/seed%s_prompt_%s.txt' % (k, pid), 'w').write(txt)
print('worktrees and prompts for round', k, 'ready')
