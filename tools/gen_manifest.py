#!/venv/bin/python
"""Regenerates /verif/MANIFEST.json from the rule modules that exist (a property without an armed
rule module is listed under not_applicable)."""
import importlib
import json
import os
import sys

VERIF = os.path.dirname(os.path.dirname(os.path.abspath(__file__)))
sys.path.insert(0, VERIF)
from sa.engine import explanation, PROPS, load_rules  # noqa: E402

props = {}
for l in open(os.path.join(VERIF, 'properties.jsonl')):
    p = json.loads(l)
    props[p['id']] = p

NA_REASONS = {}
try:
    from tools.na_reasons import NA_REASONS  # noqa
except Exception:
    pass

BASE = ('cd /repo && /venv/bin/python -m pytest -ra -q -p no:cacheprovider --timeout=900 '
        '--continue-on-collection-errors --junitxml=/tmp/mapproxy_baseline_off.junit.xml')
checks, na = [], []
for pid in PROPS:
    path = os.path.join(VERIF, 'sa', 'rules', pid.lower() + '.py')
    if not os.path.exists(path):
        na.append({'property_id': pid, 'reason': NA_REASONS.get(pid, 'no checker armed yet for this property')})
        continue
    mod, rules = load_rules(pid)
    rule_ids = [r.rule_id for r in rules]
    doc = explanation(mod, rules)
    checks.append({
        'property_id': pid,
        'quick_cmd': '/venv/bin/python /verif/sa/check.py %s --tier quick' % pid,
        'thorough_cmd': '/venv/bin/python /verif/sa/check.py %s --tier thorough' % pid,
        'evidence_file': '/verif/evidence/%s.json' % pid,
        'replay_cmd_template': '/venv/bin/python /verif/sa/check.py %s --replay {path}' % pid,
        'engine': 'sa',
        'level_claimed': {
            'category': 'other',
            'text': 'necessary structural conditions only: ' + doc + ' A pass means every listed structural '
                    'obligation holds on every path / call site / sibling of the current source tree; it does not '
                    'establish the runtime behaviour (' + getattr(mod, 'NOT_DECIDED', '') + ').',
            'design_ref': 'DESIGN.md section 4, %s' % pid,
        },
        'level_note': 'armed rules: %s. Trusted: CPython ast, name-based call resolution, the instance tables and '
                      'expected formulas in sa/rules/%s.py, configuration values, OS/sqlite/flock semantics. Not '
                      'decided by this technique: %s' % (', '.join(rule_ids), pid.lower(), getattr(mod, 'NOT_DECIDED', '')),
        'technique': getattr(mod, 'TECHNIQUE', 'static analysis of the Python AST: per-function CFG + dominators/edge '
                             'dominance, def-use and provenance, decision tables over test atoms, sibling/table agreement'),
    })
hooks_commits = []
m = {
    'version': 1,
    'setup_cmd': '/venv/bin/python -m compileall -q /verif/sa',
    'hooks': {'guard': 'MAPPROXY_VERIF', 'enable': 'none: pure source analysis, /repo is not instrumented and never '
              'imported or executed by the checks', 'baseline_off_cmd': BASE, 'source_commits': hooks_commits,
              'add_only': True},
    'engines': [{'name': 'sa', 'path': '/verif/sa', 'serves_properties': [c['property_id'] for c in checks],
                 'kind_free_text': 'repository-specific static analysis on the stdlib ast: program model with call/'
                 'class resolution, statement CFG with dominators and edge dominance, def-use/provenance, constant '
                 'folding, decision tables, template placeholder extraction; rules per property in sa/rules'}],
    'checks': checks,
    'not_applicable': na,
    'notes': 'Every check decides necessary structural conditions of its property from /repo source on every run; '
             'exit 2 + ANALYSIS-ERROR means the analysis could not be carried out (vanished anchor, unrecognised '
             'form), never a violation. Known findings: /verif/known_findings.txt. Self-test: '
             '/venv/bin/python /verif/sa/selftest.py',
}
json.dump(m, open(os.path.join(VERIF, 'MANIFEST.json'), 'w'), indent=1)
print('checks:', [c['property_id'] for c in checks], 'n/a:', [n['property_id'] for n in na])
