#!/venv/bin/python
"""store_seed.py <seed_dir> <id>: copy a confirmed seeded change (patch.diff, demo.py, notes.md, eval.json of tools/seed_eval.py)
into /verif/seeded/<id>/ with a meta.json.  A change is only stored if the confirmation succeeded."""
import json
import os
import shutil
import sys

seed, sid = sys.argv[1], sys.argv[2]
ev = json.load(open(os.path.join(seed, 'eval.json')))
ok = ev.get('patch_applies') and ev.get('demo_changed_exit') not in (0, None) and ev.get('demo_unchanged_exit') == 0 and ev.get('suite_survives')
if not ok:
    print(sid, 'NOT CONFIRMED', {k: ev.get(k) for k in ('patch_applies', 'demo_changed_exit', 'demo_unchanged_exit', 'suite_survives', 'suite_newly_failing')})
    sys.exit(1)
dst = '/verif/seeded/' + sid
os.makedirs(dst, exist_ok=True)
for f in ('patch.diff', 'demo.py', 'notes.md'):
    shutil.copy(os.path.join(seed, f), os.path.join(dst, f))
notes = ' '.join(open(os.path.join(seed, 'notes.md')).read().split())
meta = {
    'id': sid, 'property': sid[:3],
    'origin': 'written by an independent sub-agent (later round: asked for mechanisms other than those of the earlier rounds) that saw only the '
              'property text and its own scratch worktree of /repo (nothing from /verif)',
    'files_changed': ev.get('files'),
    'what_it_needs_to_manifest': notes[:900],
    'confirmed_by_me': {
        'procedure': 'tools/seed_eval.py: fresh scratch worktree of /repo HEAD, git apply patch.diff; demo.py with PYTHONPATH=<changed tree> and with '
                     'PYTHONPATH=/repo; baseline suite on the changed tree in a private network namespace compared test by test with the baseline '
                     'junit of the unchanged tree; all 20 quick checks with --repo <changed tree>; worktree removed',
        'demo_exit_on_changed_tree': ev.get('demo_changed_exit'), 'demo_exit_on_unchanged_tree': ev.get('demo_unchanged_exit'),
        'suite_on_changed_tree': ev.get('suite_tail'), 'tests_passing_before_but_not_after': ev.get('suite_newly_failing'),
    },
    'detected_before_strengthening': bool([r for r in ev.get('reported', []) if r.startswith(sid[:3]) or (':' + sid[:3] + '.') in r]),
    'reported_before_strengthening': ev.get('reported', [])[:8],
}
json.dump(meta, open(os.path.join(dst, 'meta.json'), 'w'), indent=1)
print(sid, 'stored; detected by its own property check at delivery time:', meta['detected_before_strengthening'])
