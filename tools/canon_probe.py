import sys, ast, subprocess, os, tempfile, shutil
sys.path.insert(0, '/verif')
from sa.model import Repo
from sa.flow import Canon
from sa.util import returns_of
qn = sys.argv[1]
patch = sys.argv[2] if len(sys.argv) > 2 else None
root = '/repo'
if patch:
    root = tempfile.mkdtemp(prefix='cp_')
    subprocess.check_call('git -C /repo archive HEAD mapproxy | tar -x -C %s' % root, shell=True)
    subprocess.check_call(['git', 'apply', '--directory', root.lstrip('/'), '--unsafe-paths', os.path.abspath(patch)], cwd='/')
repo = Repo(root)
fn = repo.fn(qn)
cf = Canon(fn)
for r in returns_of(fn.node):
    if r.value is not None:
        print(r.lineno, ast.unparse(cf.expr(r.value)))
if patch:
    shutil.rmtree(root)
