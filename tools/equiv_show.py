#!/venv/bin/python
"""show one variant of the equivalence sweep: the rewritten source of the function, its normalised form and what the check reports
usage: equiv_show.py <prop> <qualified function> <kind> [--src]"""
import ast
import os
import sys

sys.path.insert(0, os.path.join(os.path.dirname(os.path.abspath(__file__)), '..'))
sys.path.insert(0, os.path.dirname(os.path.abspath(__file__)))
import equiv_fuzz as ef  # noqa
from sa.model import Repo  # noqa
from sa.engine import run_property  # noqa

prop, qn, kind = sys.argv[1:4]
v = ef._variant('/repo', qn, kind)
if v is None:
    print('not applicable')
    sys.exit(0)
rel, new = v
repo = Repo('/repo', overlay={rel: new})
if '--src' in sys.argv:
    import difflib
    old = ast.unparse(ast.parse(open('/repo/' + rel).read()))
    print(''.join(difflib.unified_diff(old.splitlines(1), new.splitlines(1), n=2)))
for r in repo.inline_report:
    print('#', r)
print(ast.unparse(repo.fn(qn).node))
ctx = run_property(repo, prop, 'quick', None)
for o in ctx.obs:
    if o.status == 'violation':
        print('VIOLATION', o.key, o.text[:200] if hasattr(o, 'text') else '')
for e in ctx.errors:
    print('ERROR', e)
