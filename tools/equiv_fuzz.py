#!/venv/bin/python
"""Systematic false-alarm sweep: mechanically generated behaviour-preserving variants of every function a property's rules analyse.

Transformations (each preserves behaviour by construction):
  rename   every local variable of the function gets a new name (parameters, globals, attributes and keyword names are untouched;
           names shared with nested functions are renamed consistently)
  swap     every two-armed `if c: A else: B` becomes `if not c: B else: A`
  flip     comparisons are mirrored: a < b -> b > a, a <= b -> b >= a, a == b -> b == a, a != b -> b != a
           (operands without calls only: evaluation order of side-effect-free operands does not matter)
  alias    the value of every `return <expr>` / simple call argument is first bound to a fresh local

usage: equiv_fuzz.py [--props C01 ...] [--kinds rename swap flip alias] [-j N] [--functions-per-variant 1]
Every check must stay silent on every variant; a report is a rule that is anchored on one spelling."""
import argparse
import ast
import json
import os
import sys
import time
from concurrent.futures import ProcessPoolExecutor

VERIF = os.path.join(os.path.dirname(os.path.abspath(__file__)), '..')
sys.path.insert(0, VERIF)

from sa.model import Repo  # noqa
from sa.engine import run_property  # noqa

PROPS = ['C%02d' % i for i in range(1, 21)]


# ------------------------------------------------------------------------ transformations

def _locals_of(fn):
    """names that are local to fn (stored in its own scope), excluding parameters and declared globals"""
    params = {a.arg for a in ast.walk(fn.args) if isinstance(a, ast.arg)}
    declared = set()
    stores = set()

    def rec(n, top):
        for c in ast.iter_child_nodes(n):
            if isinstance(c, (ast.FunctionDef, ast.AsyncFunctionDef, ast.Lambda, ast.ClassDef)):
                if isinstance(c, (ast.FunctionDef, ast.AsyncFunctionDef, ast.ClassDef)):
                    stores.add(c.name)
                continue
            if isinstance(c, (ast.Global, ast.Nonlocal)):
                declared.update(c.names)
            if isinstance(c, ast.Name) and isinstance(c.ctx, (ast.Store, ast.Del)):
                stores.add(c.id)
            if isinstance(c, ast.ExceptHandler) and c.name:
                stores.add(c.name)
            if isinstance(c, (ast.ListComp, ast.SetComp, ast.DictComp, ast.GeneratorExp)):
                # comprehension targets live in their own scope but renaming them consistently is harmless
                pass
            rec(c, False)
    rec(fn, True)
    return stores - params - declared


class _Rename(ast.NodeTransformer):
    def __init__(self, mapping):
        self.m = mapping

    def visit_Name(self, n):
        if n.id in self.m:
            return ast.copy_location(ast.Name(id=self.m[n.id], ctx=n.ctx), n)
        return n

    def visit_ExceptHandler(self, n):
        self.generic_visit(n)
        if n.name in self.m:
            n.name = self.m[n.name]
        return n

    def _scoped(self, n, bound):
        inner = _Rename({k: v for k, v in self.m.items() if k not in bound})
        return inner

    def visit_FunctionDef(self, n):
        # nested function: its own parameters / locals shadow; its name is a local of the outer function
        if getattr(n, '_top', False):
            self.generic_visit(n)
            return n
        bound = {a.arg for a in ast.walk(n.args) if isinstance(a, ast.arg)} | _locals_of(n)
        inner = _Rename({k: v for k, v in self.m.items() if k not in bound})
        n.body = [inner.visit(s) for s in n.body]
        n.args.defaults = [self.visit(d) for d in n.args.defaults]
        n.decorator_list = [self.visit(d) for d in n.decorator_list]
        if n.name in self.m:
            n.name = self.m[n.name]
        return n

    def visit_Lambda(self, n):
        bound = {a.arg for a in ast.walk(n.args) if isinstance(a, ast.arg)}
        inner = _Rename({k: v for k, v in self.m.items() if k not in bound})
        n.body = inner.visit(n.body)
        return n


def t_rename(fn):
    loc = _locals_of(fn)
    # do not touch names that are read before any binding could exist as globals/builtins with the same name used as such
    used = {n.id for n in ast.walk(fn) if isinstance(n, ast.Name)}
    mapping = {}
    for v in sorted(loc):
        new = v + '_rn'
        while new in used:
            new += '_'
        mapping[v] = new
    if not mapping:
        return False
    if any(isinstance(n, ast.Call) and isinstance(n.func, ast.Name) and n.func.id in ('locals', 'vars', 'eval', 'exec') for n in ast.walk(fn)):
        return False
    fn._top = True
    _Rename(mapping).visit(fn)
    return True


class _Swap(ast.NodeTransformer):
    def __init__(self):
        self.n = 0

    def visit_If(self, node):
        self.generic_visit(node)
        if node.orelse and not (len(node.orelse) == 1 and isinstance(node.orelse[0], ast.If)):
            t = node.test
            neg = t.operand if isinstance(t, ast.UnaryOp) and isinstance(t.op, ast.Not) else ast.UnaryOp(op=ast.Not(), operand=t)
            node.test, node.body, node.orelse = neg, node.orelse, node.body
            self.n += 1
        return node

    def visit_FunctionDef(self, node):
        if getattr(node, '_top', False):
            self.generic_visit(node)
        return node


def t_swap(fn):
    fn._top = True
    s = _Swap()
    s.visit(fn)
    return s.n > 0


def _pure(e):
    return not any(isinstance(x, (ast.Call, ast.Await, ast.Yield, ast.YieldFrom, ast.NamedExpr)) for x in ast.walk(e))


class _Flip(ast.NodeTransformer):
    M = {ast.Lt: ast.Gt, ast.Gt: ast.Lt, ast.LtE: ast.GtE, ast.GtE: ast.LtE, ast.Eq: ast.Eq, ast.NotEq: ast.NotEq}

    def __init__(self):
        self.n = 0

    def visit_Compare(self, node):
        self.generic_visit(node)
        if len(node.ops) == 1 and type(node.ops[0]) in self.M and _pure(node.left) and _pure(node.comparators[0]):
            node.left, node.comparators = node.comparators[0], [node.left]
            node.ops = [self.M[type(node.ops[0])]()]
            self.n += 1
        return node


def t_flip(fn):
    f = _Flip()
    f.visit(fn)
    return f.n > 0


def t_alias(fn):
    """bind the value of every `return <non-trivial expr>` to a fresh local first"""
    used = {n.id for n in ast.walk(fn) if isinstance(n, ast.Name)}
    cnt = [0]

    def fresh():
        cnt[0] += 1
        nm = 'rv_%d' % cnt[0]
        while nm in used:
            nm += '_'
        return nm

    def rec(body):
        out = []
        for st in body:
            for fld in ('body', 'orelse', 'finalbody'):
                b = getattr(st, fld, None)
                if isinstance(b, list) and b and isinstance(b[0], ast.stmt) and not isinstance(st, (ast.FunctionDef, ast.AsyncFunctionDef, ast.ClassDef)):
                    setattr(st, fld, rec(b))
            for h in getattr(st, 'handlers', []) or []:
                h.body = rec(h.body)
            if isinstance(st, ast.Return) and st.value is not None and not isinstance(st.value, (ast.Name, ast.Constant)):
                nm = fresh()
                out.append(ast.copy_location(ast.Assign(targets=[ast.Name(id=nm, ctx=ast.Store())], value=st.value), st))
                out.append(ast.copy_location(ast.Return(value=ast.Name(id=nm, ctx=ast.Load())), st))
            else:
                out.append(st)
        return out
    if any(isinstance(n, (ast.Yield, ast.YieldFrom)) for n in ast.walk(fn)):
        return False
    fn.body = rec(fn.body)
    return cnt[0] > 0


def _terminates(body):
    return bool(body) and isinstance(body[-1], (ast.Return, ast.Raise, ast.Continue, ast.Break))


def t_early(fn):
    """`if c: A(ends in return/raise/continue/break) else: B` -> `if c: A` followed by B; and the reverse for the last such if of a block"""
    n = [0]

    def rec(body):
        out = []
        for i, st in enumerate(body):
            for fld in ('body', 'orelse', 'finalbody'):
                b = getattr(st, fld, None)
                if isinstance(b, list) and b and isinstance(b[0], ast.stmt) and not isinstance(st, (ast.FunctionDef, ast.AsyncFunctionDef, ast.ClassDef)):
                    setattr(st, fld, rec(b))
            for h in getattr(st, 'handlers', []) or []:
                h.body = rec(h.body)
            if isinstance(st, ast.If) and st.orelse and _terminates(st.body) and not (len(st.orelse) == 1 and isinstance(st.orelse[0], ast.If)):
                tail = st.orelse
                st.orelse = []
                out.append(st)
                out.extend(tail)
                n[0] += 1
            elif isinstance(st, ast.If) and not st.orelse and _terminates(st.body) and i + 1 < len(body) and i == len(body) - 2 and \
                    not isinstance(body[i + 1], (ast.FunctionDef, ast.ClassDef)):
                st.orelse = [body[i + 1]]
                out.append(st)
                n[0] += 1
                return out
            else:
                out.append(st)
        return out
    fn.body = rec(fn.body)
    return n[0] > 0


class _DeMorgan(ast.NodeTransformer):
    def __init__(self):
        self.n = 0

    def visit_UnaryOp(self, node):
        self.generic_visit(node)
        if isinstance(node.op, ast.Not) and isinstance(node.operand, ast.BoolOp):
            b = node.operand
            op = ast.Or() if isinstance(b.op, ast.And) else ast.And()
            self.n += 1
            return ast.copy_location(ast.BoolOp(op=op, values=[ast.UnaryOp(op=ast.Not(), operand=v) for v in b.values]), node)
        return node

    def visit_BoolOp(self, node):
        self.generic_visit(node)
        # a or b -> not (not a and not b)   only in test positions (truth value): handled by visit_If
        return node

    def visit_If(self, node):
        self.generic_visit(node)
        t = node.test
        if isinstance(t, ast.BoolOp) and len(t.values) == 2:
            op = ast.Or() if isinstance(t.op, ast.And) else ast.And()
            node.test = ast.UnaryOp(op=ast.Not(), operand=ast.BoolOp(op=op, values=[
                v.operand if isinstance(v, ast.UnaryOp) and isinstance(v.op, ast.Not) else ast.UnaryOp(op=ast.Not(), operand=v) for v in t.values]))
            self.n += 1
        return node


def t_demorgan(fn):
    d = _DeMorgan()
    d.visit(fn)
    return d.n > 0


def t_comp2loop(fn):
    """`x = [e for t in it if c]` -> `x = []` + explicit loop (statement level only)"""
    n = [0]
    used = {x.id for x in ast.walk(fn) if isinstance(x, ast.Name)}

    def rec(body):
        out = []
        for st in body:
            for fld in ('body', 'orelse', 'finalbody'):
                b = getattr(st, fld, None)
                if isinstance(b, list) and b and isinstance(b[0], ast.stmt) and not isinstance(st, (ast.FunctionDef, ast.AsyncFunctionDef, ast.ClassDef)):
                    setattr(st, fld, rec(b))
            for h in getattr(st, 'handlers', []) or []:
                h.body = rec(h.body)
            v = st.value if isinstance(st, ast.Assign) and len(st.targets) == 1 and isinstance(st.targets[0], ast.Name) else None
            if isinstance(v, ast.ListComp) and len(v.generators) == 1 and not v.generators[0].is_async and \
                    st.targets[0].id not in {x.id for x in ast.walk(v) if isinstance(x, ast.Name)} and \
                    not ({x.id for x in ast.walk(v.generators[0].target) if isinstance(x, ast.Name)} & (used - {x.id for x in ast.walk(v) if isinstance(x, ast.Name)})):
                acc = st.targets[0].id
                gen = v.generators[0]
                app = ast.Expr(value=ast.Call(func=ast.Attribute(value=ast.Name(id=acc, ctx=ast.Load()), attr='append', ctx=ast.Load()), args=[v.elt], keywords=[]))
                inner = [app]
                for c in reversed(gen.ifs):
                    inner = [ast.If(test=c, body=inner, orelse=[])]
                out.append(ast.copy_location(ast.Assign(targets=[ast.Name(id=acc, ctx=ast.Store())], value=ast.List(elts=[], ctx=ast.Load())), st))
                out.append(ast.copy_location(ast.For(target=gen.target, iter=gen.iter, body=inner, orelse=[]), st))
                n[0] += 1
            else:
                out.append(st)
        return out
    fn.body = rec(fn.body)
    return n[0] > 0


class _ForUnpack(ast.NodeTransformer):
    def __init__(self, used):
        self.n = 0
        self.used = used

    def visit_For(self, node):
        self.generic_visit(node)
        if isinstance(node.target, ast.Tuple) and all(isinstance(e, ast.Name) for e in node.target.elts):
            nm = 'item_%d' % self.n
            while nm in self.used:
                nm += '_'
            un = ast.Assign(targets=[node.target], value=ast.Name(id=nm, ctx=ast.Load()))
            node.target = ast.Name(id=nm, ctx=ast.Store())
            node.body = [un] + node.body
            self.n += 1
        return node


def t_forunpack(fn):
    f = _ForUnpack({x.id for x in ast.walk(fn) if isinstance(x, ast.Name)})
    f.visit(fn)
    return f.n > 0


class _ToIfExp(ast.NodeTransformer):
    def __init__(self):
        self.n = 0

    def visit_If(self, node):
        self.generic_visit(node)
        if len(node.body) == 1 and len(node.orelse) == 1 and isinstance(node.body[0], ast.Assign) and isinstance(node.orelse[0], ast.Assign) and \
                len(node.body[0].targets) == 1 and isinstance(node.body[0].targets[0], ast.Name) and \
                ast.dump(node.body[0].targets[0]) == ast.dump(node.orelse[0].targets[0]):
            self.n += 1
            return ast.copy_location(ast.Assign(targets=node.body[0].targets, value=ast.IfExp(test=node.test, body=node.body[0].value, orelse=node.orelse[0].value)), node)
        if len(node.body) == 1 and len(node.orelse) == 1 and isinstance(node.body[0], ast.Return) and isinstance(node.orelse[0], ast.Return) and \
                node.body[0].value is not None and node.orelse[0].value is not None:
            self.n += 1
            return ast.copy_location(ast.Return(value=ast.IfExp(test=node.test, body=node.body[0].value, orelse=node.orelse[0].value)), node)
        return node


def t_ifexp(fn):
    t = _ToIfExp()
    t.visit(fn)
    return t.n > 0


def t_hoist(fn):
    """the first call argument that is itself a call is bound to a fresh local first (simple statements only)"""
    used = {x.id for x in ast.walk(fn) if isinstance(x, ast.Name)}
    n = [0]

    def rec(body):
        out = []
        for st in body:
            for fld in ('body', 'orelse', 'finalbody'):
                b = getattr(st, fld, None)
                if isinstance(b, list) and b and isinstance(b[0], ast.stmt) and not isinstance(st, (ast.FunctionDef, ast.AsyncFunctionDef, ast.ClassDef)):
                    setattr(st, fld, rec(b))
            for h in getattr(st, 'handlers', []) or []:
                h.body = rec(h.body)
            v = st.value if isinstance(st, (ast.Assign, ast.Expr, ast.Return)) else None
            if isinstance(v, ast.Call) and isinstance(v.func, (ast.Name, ast.Attribute)) and _pure(v.func) and v.args and isinstance(v.args[0], ast.Call) and \
                    not any(isinstance(x, (ast.Yield, ast.YieldFrom, ast.Lambda)) for x in ast.walk(v)):
                nm = 'arg_%d' % n[0]
                while nm in used:
                    nm += '_'
                used.add(nm)
                out.append(ast.copy_location(ast.Assign(targets=[ast.Name(id=nm, ctx=ast.Store())], value=v.args[0]), st))
                v.args[0] = ast.Name(id=nm, ctx=ast.Load())
                n[0] += 1
            out.append(st)
        return out
    fn.body = rec(fn.body)
    return n[0] > 0


# ---- extraction kinds: a piece of the function moves into a new helper (method of the same class / module function)

_SIMPLE_STMTS = (ast.Assign, ast.AugAssign, ast.Expr, ast.If, ast.For, ast.With)


def _block_ok(stmts):
    for s in stmts:
        if not isinstance(s, _SIMPLE_STMTS):
            return False
        for n in ast.walk(s):
            if isinstance(n, (ast.Return, ast.Yield, ast.YieldFrom, ast.Await, ast.Break, ast.Continue, ast.Global, ast.Nonlocal, ast.Delete,
                              ast.FunctionDef, ast.AsyncFunctionDef, ast.ClassDef, ast.Lambda, ast.NamedExpr, ast.Try, ast.Raise)):
                return False
            if isinstance(n, ast.Call) and isinstance(n.func, ast.Name) and n.func.id in ('locals', 'vars', 'super'):
                return False
    return True


def _names(stmts, ctx):
    out = []
    for s in stmts:
        for n in ast.walk(s):
            if isinstance(n, ast.Name) and isinstance(n.ctx, ctx) and n.id not in out:
                out.append(n.id)
    return out


def _helper_kind(fn):
    """'method' (first parameter self, no decorators), 'function' (module level) or None"""
    if fn.decorator_list:
        return None
    a = fn.args
    if a.args and a.args[0].arg == 'self':
        return 'method'
    return getattr(fn, '_container_kind', None)


def _extract_window(fn, which):
    """move a run of 2-3 consecutive statements of the function body into a helper; which = 0 (first eligible), 1 (middle), 2 (last)"""
    hk = _helper_kind(fn)
    if hk is None:
        return False
    body = fn.body
    start0 = 1 if body and isinstance(body[0], ast.Expr) and isinstance(body[0].value, ast.Constant) else 0
    fn_locals = _locals_of(fn) | {a.arg for a in ast.walk(fn.args) if isinstance(a, ast.arg)}
    cands = []
    for i in range(start0, len(body) - 1):
        for ln in (3, 2):
            blk = body[i:i + ln]
            if len(blk) < 2 or i + ln > len(body) - 0 or not _block_ok(blk):
                continue
            if i + ln == len(body):
                continue            # leave at least the last statement in place
            stored = _names(blk, (ast.Store,))
            after = _names(body[i + ln:], (ast.Load,))
            outs = [n for n in stored if n in after]
            # a name stored in the block and also assigned before it and read after it on a path that skips the store: keep simple
            if len(outs) > 2:
                continue
            loaded = _names(blk, (ast.Load,))
            before_stored = set(_names(body[:i], (ast.Store,))) | {a.arg for a in ast.walk(fn.args) if isinstance(a, ast.arg)}
            # inputs: names whose first occurrence in the block (document order, value before target) is a read
            first = {}

            def occ(n):
                if isinstance(n, (ast.Assign, ast.AugAssign, ast.AnnAssign)):
                    if isinstance(n, ast.AugAssign):
                        occ(n.target) if not isinstance(n.target, ast.Name) else first.setdefault(n.target.id, 'load')
                    if n.value is not None:
                        occ(n.value)
                    for t in (n.targets if isinstance(n, ast.Assign) else [n.target]):
                        occ(t)
                    return
                if isinstance(n, ast.For):
                    occ(n.iter)
                    occ(n.target)
                    for s_ in n.body + n.orelse:
                        occ(s_)
                    return
                if isinstance(n, ast.Name):
                    first.setdefault(n.id, 'load' if isinstance(n.ctx, ast.Load) else 'store')
                    return
                for c in ast.iter_child_nodes(n):
                    occ(c)
            for s_ in blk:
                occ(s_)
            ins = [n for n in loaded if n in fn_locals and n in before_stored and n != 'self' and first.get(n) == 'load']
            # conditionally stored outputs must have a value on every path: require the output to be unconditionally stored
            uncond = set()
            for s in blk:
                if isinstance(s, ast.Assign):
                    for t in s.targets:
                        uncond |= {x.id for x in ast.walk(t) if isinstance(x, ast.Name)}
            if any(o not in uncond and o not in ins for o in outs):
                continue
            cands.append((i, ln, ins, outs))
            break
    if not cands:
        return False
    i, ln, ins, outs = cands[0] if which == 0 else cands[len(cands) // 2] if which == 1 else cands[-1]
    blk = body[i:i + ln]
    name = '_xf_%s_part%d' % (fn.name.strip('_'), which)
    params = (['self'] if hk == 'method' else []) + ins
    ret = [ast.Return(value=ast.Name(id=outs[0], ctx=ast.Load()) if len(outs) == 1 else ast.Tuple(elts=[ast.Name(id=o, ctx=ast.Load()) for o in outs], ctx=ast.Load()))] if outs else []
    helper = ast.FunctionDef(name=name, args=ast.arguments(posonlyargs=[], args=[ast.arg(arg=p) for p in params], kwonlyargs=[], kw_defaults=[], defaults=[]),
                             body=blk + ret, decorator_list=[], returns=None, type_comment=None, type_params=[])
    func = ast.Attribute(value=ast.Name(id='self', ctx=ast.Load()), attr=name, ctx=ast.Load()) if hk == 'method' else ast.Name(id=name, ctx=ast.Load())
    call = ast.Call(func=func, args=[ast.Name(id=n, ctx=ast.Load()) for n in ins], keywords=[])
    if not outs:
        new = ast.Expr(value=call)
    elif len(outs) == 1:
        new = ast.Assign(targets=[ast.Name(id=outs[0], ctx=ast.Store())], value=call)
    else:
        new = ast.Assign(targets=[ast.Tuple(elts=[ast.Name(id=o, ctx=ast.Store()) for o in outs], ctx=ast.Store())], value=call)
    ast.copy_location(new, blk[0])
    fn.body = body[:i] + [new] + body[i + ln:]
    fn._siblings = [helper]
    return True


def t_extract0(fn):
    return _extract_window(fn, 0)


def t_extract1(fn):
    return _extract_window(fn, 1)


def t_extract2(fn):
    return _extract_window(fn, 2)


def _extract_test(fn, which):
    """the test of the which-th top-level-reachable `if` moves into a predicate helper"""
    hk = _helper_kind(fn)
    if hk is None:
        return False
    ifs = []

    def rec(body):
        for st in body:
            if isinstance(st, (ast.FunctionDef, ast.AsyncFunctionDef, ast.ClassDef)):
                continue
            if isinstance(st, ast.If) and not any(isinstance(n, (ast.Yield, ast.YieldFrom, ast.Await, ast.Lambda, ast.NamedExpr, ast.ListComp, ast.GeneratorExp,
                                                                  ast.SetComp, ast.DictComp)) for n in ast.walk(st.test)) and \
                    not isinstance(st.test, (ast.Name, ast.Constant)):
                ifs.append(st)
            for fld in ('body', 'orelse', 'finalbody'):
                b = getattr(st, fld, None)
                if isinstance(b, list) and b and isinstance(b[0], ast.stmt):
                    rec(b)
            for h in getattr(st, 'handlers', []) or []:
                rec(h.body)
    rec(fn.body)
    if len(ifs) <= which:
        return False
    st = ifs[which]
    fn_locals = _locals_of(fn) | {a.arg for a in ast.walk(fn.args) if isinstance(a, ast.arg)}
    ins = [n for n in _names([ast.Expr(value=st.test)], (ast.Load,)) if n in fn_locals and n != 'self']
    name = '_xp_%s_test%d' % (fn.name.strip('_'), which)
    params = (['self'] if hk == 'method' else []) + ins
    helper = ast.FunctionDef(name=name, args=ast.arguments(posonlyargs=[], args=[ast.arg(arg=p) for p in params], kwonlyargs=[], kw_defaults=[], defaults=[]),
                             body=[ast.Return(value=st.test)], decorator_list=[], returns=None, type_comment=None, type_params=[])
    func = ast.Attribute(value=ast.Name(id='self', ctx=ast.Load()), attr=name, ctx=ast.Load()) if hk == 'method' else ast.Name(id=name, ctx=ast.Load())
    st.test = ast.copy_location(ast.Call(func=func, args=[ast.Name(id=n, ctx=ast.Load()) for n in ins], keywords=[]), st.test)
    fn._siblings = [helper]
    return True


def t_xtest0(fn):
    return _extract_test(fn, 0)


def t_xtest1(fn):
    return _extract_test(fn, 1)


def t_unpack(fn):
    """`s[0]` / `s[1]` reads of a name that is never subscripted otherwise nor re-bound -> `s_0, s_1 = s` once, then the two locals
    (length two is assumed, as the refactorings of that kind do)"""
    params = [a.arg for a in fn.args.args + fn.args.kwonlyargs]
    stores = {}
    for n in ast.walk(fn):
        if isinstance(n, ast.Name) and isinstance(n.ctx, (ast.Store, ast.Del)):
            stores[n.id] = stores.get(n.id, 0) + 1
    subs = {}
    other = set()
    for n in ast.walk(fn):
        if isinstance(n, ast.Subscript) and isinstance(n.value, ast.Name) and isinstance(n.ctx, ast.Load) and isinstance(n.slice, ast.Constant) and \
                n.slice.value in (0, 1) and not isinstance(n.slice.value, bool):
            subs.setdefault(n.value.id, set()).add(n.slice.value)
        elif isinstance(n, ast.Subscript) and isinstance(n.value, ast.Name):
            other.add(n.value.id)
    used = {x.id for x in ast.walk(fn) if isinstance(x, ast.Name)}
    done = 0
    for nm, idx in sorted(subs.items()):
        if idx != {0, 1} or nm in other or nm not in params or stores.get(nm, 0) or nm == 'self':
            continue
        a, b = nm + '_0', nm + '_1'
        if a in used or b in used:
            continue

        class R(ast.NodeTransformer):
            def visit_Subscript(self, n):
                self.generic_visit(n)
                if isinstance(n.value, ast.Name) and n.value.id == nm and isinstance(n.ctx, ast.Load) and isinstance(n.slice, ast.Constant):
                    return ast.copy_location(ast.Name(id=a if n.slice.value == 0 else b, ctx=ast.Load()), n)
                return n

            def visit_Lambda(self, n):
                return n
        # nested scopes reading nm[k] keep working: the new locals are visible there as well (closures), lambdas are left alone
        R().visit(fn)
        k = 1 if fn.body and isinstance(fn.body[0], ast.Expr) and isinstance(fn.body[0].value, ast.Constant) else 0
        fn.body.insert(k, ast.Assign(targets=[ast.Tuple(elts=[ast.Name(id=a, ctx=ast.Store()), ast.Name(id=b, ctx=ast.Store())], ctx=ast.Store())],
                                     value=ast.Name(id=nm, ctx=ast.Load())))
        done += 1
    return done > 0


class _Aug(ast.NodeTransformer):
    n = 0

    def visit_AugAssign(self, node):
        if isinstance(node.target, ast.Name):
            self.n += 1
            return ast.copy_location(ast.Assign(targets=[ast.Name(id=node.target.id, ctx=ast.Store())],
                                                value=ast.BinOp(left=ast.Name(id=node.target.id, ctx=ast.Load()), op=node.op, right=node.value)), node)
        return node

    def visit_Return(self, node):
        if node.value is None:
            self.n += 1
            node.value = ast.Constant(value=None)
        return node

    def visit_FunctionDef(self, node):
        if getattr(node, '_top', False):
            self.generic_visit(node)
        return node

    def visit_Lambda(self, node):
        return node


def t_plain(fn):
    """`x += e` -> `x = x + e` (plain names), bare `return` -> `return None`"""
    fn._top = True
    t = _Aug()
    t.visit(fn)
    return t.n > 0


def _hoist_attr(fn, which):
    """the which-th most used attribute chain rooted at a parameter (`query.bbox`, `self.grid.tile_size`) that the function never
    assigns (neither the chain, a prefix of it, nor its root) is read once into a local at the top of the function"""
    params = [a.arg for a in fn.args.posonlyargs + fn.args.args + fn.args.kwonlyargs]
    stored_roots = {n.id for n in ast.walk(fn) if isinstance(n, ast.Name) and isinstance(n.ctx, (ast.Store, ast.Del))}
    stored_chains = {ast.unparse(n) for n in ast.walk(fn) if isinstance(n, ast.Attribute) and isinstance(n.ctx, (ast.Store, ast.Del))}
    sub_stored = {ast.unparse(n.value) for n in ast.walk(fn) if isinstance(n, ast.Subscript) and isinstance(n.ctx, (ast.Store, ast.Del))}
    count = {}

    def root(n):
        while isinstance(n, ast.Attribute):
            n = n.value
        return n.id if isinstance(n, ast.Name) else None

    class V(ast.NodeVisitor):
        def visit_Attribute(self, n):
            if isinstance(n.ctx, ast.Load) and root(n) in params and root(n) not in stored_roots:
                t = ast.unparse(n)
                count[t] = count.get(t, 0) + 1
            self.generic_visit(n)

        def visit_Call(self, n):
            # the function position of a call is a method lookup, not a value: do not hoist `self.f` of `self.f(x)`
            if isinstance(n.func, ast.Attribute):
                self.visit(n.func.value)
            else:
                self.visit(n.func)
            for a in n.args:
                self.visit(a)
            for k in n.keywords:
                self.visit(k.value)

        def visit_FunctionDef(self, n):
            if n is fn:
                self.generic_visit(n)

        def visit_Lambda(self, n):
            pass
    V().visit(fn)
    cands = [t for t, c in sorted(count.items(), key=lambda kv: (-kv[1], kv[0])) if c >= 2 and
             not any(sc == t or sc.startswith(t + '.') or t.startswith(sc + '.') for sc in stored_chains | sub_stored)]
    if len(cands) <= which:
        return False
    chain = cands[which]
    used = {x.id for x in ast.walk(fn) if isinstance(x, ast.Name)}
    nm = chain.split('.')[-1].strip('_') + '_value'
    while nm in used:
        nm += '_'

    class R(ast.NodeTransformer):
        def visit_Attribute(self, n):
            if isinstance(n.ctx, ast.Load) and ast.unparse(n) == chain:
                return ast.copy_location(ast.Name(id=nm, ctx=ast.Load()), n)
            self.generic_visit(n)
            return n

        def visit_Call(self, n):
            if isinstance(n.func, ast.Attribute) and ast.unparse(n.func) == chain:
                n.func.value = self.visit(n.func.value)
            else:
                n.func = self.visit(n.func)
            n.args = [self.visit(a) for a in n.args]
            for k in n.keywords:
                k.value = self.visit(k.value)
            return n

        def visit_Lambda(self, n):
            return n

        def visit_FunctionDef(self, n):
            if n is fn:
                self.generic_visit(n)
            return n
    R().visit(fn)
    k = 1 if fn.body and isinstance(fn.body[0], ast.Expr) and isinstance(fn.body[0].value, ast.Constant) else 0
    fn.body.insert(k, ast.Assign(targets=[ast.Name(id=nm, ctx=ast.Store())], value=ast.parse(chain, mode='eval').body))
    return True


def t_hoistattr0(fn):
    return _hoist_attr(fn, 0)


def t_hoistattr1(fn):
    return _hoist_attr(fn, 1)


class _NestAnd(ast.NodeTransformer):
    """`if a and b: X` (no else) -> `if a: if b: X`"""
    n = 0

    def visit_If(self, node):
        self.generic_visit(node)
        if not node.orelse and isinstance(node.test, ast.BoolOp) and isinstance(node.test.op, ast.And) and len(node.test.values) >= 2:
            self.n += 1
            first, rest = node.test.values[0], node.test.values[1:]
            inner = ast.If(test=rest[0] if len(rest) == 1 else ast.BoolOp(op=ast.And(), values=rest), body=node.body, orelse=[])
            return ast.copy_location(ast.If(test=first, body=[ast.copy_location(inner, node)], orelse=[]), node)
        return node

    def visit_Lambda(self, node):
        return node


def t_nestand(fn):
    t = _NestAnd()
    fn.body = [t.visit(s) for s in fn.body]
    return t.n > 0


class _JoinAnd(ast.NodeTransformer):
    """`if a: if b: X` (no else on either, nothing else in the outer body) -> `if a and b: X`"""
    n = 0

    def visit_If(self, node):
        self.generic_visit(node)
        if not node.orelse and len(node.body) == 1 and isinstance(node.body[0], ast.If) and not node.body[0].orelse:
            self.n += 1
            inner = node.body[0]
            return ast.copy_location(ast.If(test=ast.BoolOp(op=ast.And(), values=[node.test, inner.test]), body=inner.body, orelse=[]), node)
        return node

    def visit_Lambda(self, node):
        return node


def t_joinand(fn):
    t = _JoinAnd()
    fn.body = [t.visit(s) for s in fn.body]
    return t.n > 0


def t_boolret(fn):
    """`if T: return True` / `return False` (and the negated / else forms) -> `return bool-valued T`;  only where T is a comparison /
    not / and / or of comparisons (a plain truthiness test would change the returned value)"""
    n = [0]

    def boolish(e):
        if isinstance(e, ast.Compare):
            return True
        if isinstance(e, ast.UnaryOp) and isinstance(e.op, ast.Not):
            return True
        if isinstance(e, ast.BoolOp):
            return all(boolish(v) for v in e.values)
        return False

    def const(st):
        return st.value.value if isinstance(st, ast.Return) and isinstance(st.value, ast.Constant) and isinstance(st.value.value, bool) else None

    def rec(body):
        out, i = [], 0
        while i < len(body):
            a = body[i]
            b = body[i + 1] if i + 1 < len(body) else None
            for fld in ('body', 'orelse', 'finalbody'):
                blk = getattr(a, fld, None)
                if isinstance(blk, list) and blk and isinstance(blk[0], ast.stmt) and not isinstance(a, (ast.FunctionDef, ast.AsyncFunctionDef, ast.ClassDef)):
                    setattr(a, fld, rec(blk))
            for h in getattr(a, 'handlers', []) or []:
                h.body = rec(h.body)
            if isinstance(a, ast.If) and len(a.body) == 1 and const(a.body[0]) is not None and boolish(a.test):
                v1 = const(a.body[0])
                v2 = const(a.orelse[0]) if len(a.orelse) == 1 else (const(b) if not a.orelse and b is not None else None)
                if v2 is not None and v1 != v2:
                    e = a.test if v1 else ast.UnaryOp(op=ast.Not(), operand=a.test)
                    out.append(ast.copy_location(ast.Return(value=e), a))
                    n[0] += 1
                    i += 1 if a.orelse else 2
                    continue
            out.append(a)
            i += 1
        return out
    fn.body = rec(fn.body)
    return n[0] > 0


def t_tokw(fn):
    """positional arguments of calls to methods of the own class / functions of the own module become keyword arguments
    (from the second argument on; only where the callee is unambiguous and has plain positional parameters)"""
    sigs = getattr(fn, '_module_sigs', None)
    if not sigs:
        return False
    n = [0]

    class T(ast.NodeTransformer):
        def visit_Call(self, node):
            self.generic_visit(node)
            f = node.func
            name, method = None, False
            if isinstance(f, ast.Name):
                name = f.id
            elif isinstance(f, ast.Attribute) and isinstance(f.value, ast.Name) and f.value.id == 'self':
                name, method = f.attr, True
            params = sigs.get((name, method))
            if not params or len(node.args) < 2 or any(isinstance(a, ast.Starred) for a in node.args) or len(node.args) > len(params):
                return node
            if any(k.arg is None for k in node.keywords):
                return node
            keep, move = node.args[:1], node.args[1:]
            node.keywords = [ast.keyword(arg=p, value=a) for p, a in zip(params[1:], move)] + node.keywords
            node.args = keep
            n[0] += 1
            return node

        def visit_Lambda(self, node):
            return node
    fn.body = [T().visit(s) for s in fn.body]
    return n[0] > 0


def t_constname(fn):
    """integer literals >= 2 of the function (not subscripts / slices) get module level names"""
    consts = {}

    class T(ast.NodeTransformer):
        def visit_Subscript(self, node):
            node.value = self.visit(node.value)
            return node

        def visit_Constant(self, node):
            if isinstance(node.value, int) and not isinstance(node.value, bool) and node.value >= 2:
                nm = '_K_%d' % node.value
                consts[nm] = node.value
                return ast.copy_location(ast.Name(id=nm, ctx=ast.Load()), node)
            return node

        def visit_JoinedStr(self, node):
            return node

        def visit_Lambda(self, node):
            return node
    start = 1 if fn.body and isinstance(fn.body[0], ast.Expr) and isinstance(fn.body[0].value, ast.Constant) else 0
    fn.body = fn.body[:start] + [T().visit(s) for s in fn.body[start:]]
    if not consts:
        return False
    fn._module_consts = consts
    return True


class _JoinWith(ast.NodeTransformer):
    """`with A: with B as x: body` (nothing else in the outer body) -> `with A, B as x: body`"""
    n = 0

    def visit_With(self, node):
        self.generic_visit(node)
        if len(node.body) == 1 and isinstance(node.body[0], ast.With):
            self.n += 1
            inner = node.body[0]
            return ast.copy_location(ast.With(items=node.items + inner.items, body=inner.body, type_comment=None), node)
        return node

    def visit_Lambda(self, node):
        return node


def t_joinwith(fn):
    t = _JoinWith()
    fn.body = [t.visit(s) for s in fn.body]
    return t.n > 0


def _first_stmt_call(fn, pred):
    """(block, index, statement, call) of the first simple statement whose value is / contains at top level a call satisfying pred"""
    def blocks(node):
        for fld in ('body', 'orelse', 'finalbody'):
            b = getattr(node, fld, None)
            if isinstance(b, list) and b and isinstance(b[0], ast.stmt):
                yield b
                for st in b:
                    if not isinstance(st, (ast.FunctionDef, ast.AsyncFunctionDef, ast.ClassDef)):
                        yield from blocks(st)
        for h in getattr(node, 'handlers', []) or []:
            yield from blocks(h)
    for b in blocks(fn):
        for i, st in enumerate(b):
            if isinstance(st, (ast.Assign, ast.Return, ast.Expr)) and isinstance(getattr(st, 'value', None), ast.Call) and pred(st.value):
                return b, i, st, st.value
    return None


def t_methval(fn):
    """`r = obj.attr.m(a, b)` -> `m_ = obj.attr.m` / `r = m_(a, b)` (first statement that is such a call; receiver a plain attribute chain)"""
    used = {n.id for n in ast.walk(fn) if isinstance(n, ast.Name)} | {a.arg for a in ast.walk(fn) if isinstance(a, ast.arg)}

    def pred(c):
        f = c.func
        if not isinstance(f, ast.Attribute):
            return False
        e = f.value
        while isinstance(e, ast.Attribute):
            e = e.value
        return isinstance(e, ast.Name) and not any(isinstance(a, ast.Starred) for a in c.args)
    hit = _first_stmt_call(fn, pred)
    if hit is None:
        return False
    b, i, st, c = hit
    nm = c.func.attr + '_method'
    if nm in used:
        return False
    b.insert(i, ast.copy_location(ast.Assign(targets=[ast.Name(id=nm, ctx=ast.Store())], value=c.func, type_comment=None), st))
    c.func = ast.copy_location(ast.Name(id=nm, ctx=ast.Load()), c)
    return True


def t_starcall(fn):
    """`f(a, b, k=v)` -> `call_args = (a, b)` / `f(*call_args, k=v)` (first statement that is a call with >= 2 plain positional arguments)"""
    used = {n.id for n in ast.walk(fn) if isinstance(n, ast.Name)} | {a.arg for a in ast.walk(fn) if isinstance(a, ast.arg)}
    if 'call_args' in used:
        return False

    def pred(c):
        # (the callee expression is evaluated before the arguments: it must be free of calls to be moved behind them)
        return len(c.args) >= 2 and not any(isinstance(a, ast.Starred) for a in c.args) and \
            not any(isinstance(x, (ast.Call, ast.Subscript)) for x in ast.walk(c.func))
    hit = _first_stmt_call(fn, pred)
    if hit is None:
        return False
    b, i, st, c = hit
    b.insert(i, ast.copy_location(ast.Assign(targets=[ast.Name(id='call_args', ctx=ast.Store())], value=ast.Tuple(elts=list(c.args), ctx=ast.Load()),
                                             type_comment=None), st))
    c.args = [ast.Starred(value=ast.Name(id='call_args', ctx=ast.Load()), ctx=ast.Load())]
    return True


def t_namedcond(fn):
    """`return A and B` / `x = A and B` with a call-free first operand -> `first_ok = A` / `return first_ok and B`"""
    used = {n.id for n in ast.walk(fn) if isinstance(n, ast.Name)} | {a.arg for a in ast.walk(fn) if isinstance(a, ast.arg)}
    if 'first_ok' in used:
        return False
    for b_owner in ast.walk(fn):
        for fld in ('body', 'orelse', 'finalbody'):
            b = getattr(b_owner, fld, None)
            if not (isinstance(b, list) and b and isinstance(b[0], ast.stmt)):
                continue
            for i, st in enumerate(b):
                v = getattr(st, 'value', None) if isinstance(st, (ast.Return, ast.Assign)) else None
                if isinstance(v, ast.BoolOp) and len(v.values) >= 2 and not any(isinstance(x, (ast.Call, ast.Await, ast.Yield, ast.NamedExpr, ast.Lambda))
                                                                              for x in ast.walk(v.values[0])):
                    b.insert(i, ast.copy_location(ast.Assign(targets=[ast.Name(id='first_ok', ctx=ast.Store())], value=v.values[0], type_comment=None), st))
                    v.values[0] = ast.copy_location(ast.Name(id='first_ok', ctx=ast.Load()), v)
                    return True
    return False


KINDS = {'nestand': t_nestand, 'joinand': t_joinand, 'boolret': t_boolret, 'tokw': t_tokw, 'constname': t_constname, 'hoistattr0': t_hoistattr0, 'hoistattr1': t_hoistattr1, 'extract0': t_extract0, 'extract1': t_extract1, 'extract2': t_extract2, 'xtest0': t_xtest0, 'xtest1': t_xtest1, 'unpack': t_unpack,
         'plain': t_plain, 'rename': t_rename, 'swap': t_swap, 'flip': t_flip, 'alias': t_alias, 'early': t_early, 'demorgan': t_demorgan,
         'comp2loop': t_comp2loop, 'forunpack': t_forunpack, 'ifexp': t_ifexp, 'hoist': t_hoist,
         'joinwith': t_joinwith, 'methval': t_methval, 'starcall': t_starcall, 'namedcond': t_namedcond}


# ------------------------------------------------------------------------ driver

def _functions_of(prop, root):
    repo = Repo(root)
    ctx = run_property(repo, prop, 'quick', None)
    fns = sorted(q for q in ctx.stats['functions'] if q in repo.funcs)
    return fns


def _variant(root, qn, kind):
    """-> (rel, new source) or None"""
    rel, qual = qn.split(':', 1)
    src = open(os.path.join(root, rel), encoding='utf-8').read()
    tree = ast.parse(src)
    # locate the function by qualified name (incl. #k suffix for multiply defined names)
    base, _, k = qual.partition('#')
    k = int(k) if k else 1
    parts = base.split('.')
    found = []

    def rec(body, i):
        for st in body:
            if isinstance(st, (ast.FunctionDef, ast.AsyncFunctionDef, ast.ClassDef)) and st.name == parts[i]:
                if i == len(parts) - 1:
                    if isinstance(st, (ast.FunctionDef, ast.AsyncFunctionDef)):
                        st._container = body
                        st._container_kind = 'function' if body is tree.body else None
                        found.append(st)
                else:
                    rec(st.body, i + 1)
            elif isinstance(st, (ast.If, ast.Try, ast.With, ast.For, ast.While)):
                for fld in ('body', 'orelse', 'finalbody'):
                    rec(getattr(st, fld, []) or [], i)
                for h in getattr(st, 'handlers', []) or []:
                    rec(h.body, i)
    rec(tree.body, 0)
    if len(found) < k:
        return None
    fn = found[k - 1]
    # signatures of the functions / methods a call can be resolved to without types: module level functions and methods of the
    # class the function belongs to (plain positional parameters only)
    sigs = {}
    def plain(f):
        a = f.args
        return not (a.vararg or a.kwarg or a.posonlyargs or f.decorator_list)
    for st in tree.body:
        if isinstance(st, ast.FunctionDef) and plain(st):
            sigs[(st.name, False)] = [x.arg for x in st.args.args]
        elif isinstance(st, ast.ClassDef) and len(parts) >= 2 and st.name == parts[-2]:
            for m in st.body:
                if isinstance(m, ast.FunctionDef) and plain(m) and m.args.args and m.args.args[0].arg == 'self':
                    sigs[(m.name, True)] = [x.arg for x in m.args.args[1:]]
    # a name defined more than once at module level is ambiguous
    counts = {}
    for st in ast.walk(tree):
        if isinstance(st, ast.FunctionDef):
            counts[st.name] = counts.get(st.name, 0) + 1
    fn._module_sigs = {k_: v for k_, v in sigs.items() if counts.get(k_[0], 0) == 1}
    if not KINDS[kind](fn):
        return None
    for nm, val in sorted(getattr(fn, '_module_consts', {}).items()):
        if not any(isinstance(st, ast.Assign) and any(isinstance(t, ast.Name) and t.id == nm for t in st.targets) for st in tree.body):
            k0 = 0
            while k0 < len(tree.body) and (isinstance(tree.body[k0], (ast.Import, ast.ImportFrom)) or
                                           (isinstance(tree.body[k0], ast.Expr) and isinstance(tree.body[k0].value, ast.Constant))):
                k0 += 1
            tree.body.insert(k0, ast.Assign(targets=[ast.Name(id=nm, ctx=ast.Store())], value=ast.Constant(value=val)))
    for h in getattr(fn, '_siblings', []):
        ast.copy_location(h, fn)
        fn._container.insert(fn._container.index(fn) + 1, h)
    ast.fix_missing_locations(tree)
    new = ast.unparse(tree)
    try:
        compile(new, rel, 'exec')
    except SyntaxError:
        return None
    return rel, new


_BASE = {}


def _job(arg):
    root, prop, qn, kind = arg
    v = _variant(root, qn, kind)
    if v is None:
        return (prop, qn, kind, 'skip', [])
    rel, new = v
    if root not in _BASE:
        _BASE[root] = Repo(root)
    try:
        repo = Repo(root, overlay={rel: new}, base=_BASE[root])
        ctx = run_property(repo, prop, 'quick', None)
    except Exception as ex:      # noqa
        return (prop, qn, kind, 'crash', ['%s: %s' % (type(ex).__name__, ex)])
    bad = sorted({o.key for o in ctx.obs if o.status == 'violation'})
    errs = ['%s: %s' % e for e in ctx.errors]
    # known findings are keyed constructs: not alarms
    from sa.engine import load_known
    known = {k for (pr, k) in load_known()[0] if pr == prop}
    bad = [b for b in bad if b not in known]
    return (prop, qn, kind, 'alarm' if bad or errs else 'silent', bad + errs)


def main():
    ap = argparse.ArgumentParser()
    ap.add_argument('--repo', default='/repo')
    ap.add_argument('--props', nargs='*', default=PROPS)
    ap.add_argument('--kinds', nargs='*', default=list(KINDS))
    ap.add_argument('-j', type=int, default=16)
    ap.add_argument('--out', default=None)
    a = ap.parse_args()
    t0 = time.time()
    jobs = []
    for p in a.props:
        for qn in _functions_of(p, a.repo):
            for k in a.kinds:
                jobs.append((a.repo, p, qn, k))
    with ProcessPoolExecutor(a.j) as ex:
        res = list(ex.map(_job, jobs, chunksize=4))
    counts = {}
    for r in res:
        counts[r[3]] = counts.get(r[3], 0) + 1
    alarms = [r for r in res if r[3] in ('alarm', 'crash')]
    for r in alarms:
        print('%-6s %s %-6s %s %s' % (r[3].upper(), r[0], r[2], r[1], '; '.join(r[4])[:220]))
    print('equiv_fuzz: %d variants in %.0fs: %s' % (len(res), time.time() - t0, json.dumps(counts, sort_keys=True)))
    if a.out:
        json.dump([list(r) for r in res], open(a.out, 'w'), indent=0)
    return 1 if alarms else 0


if __name__ == '__main__':
    sys.exit(main())
