#!/venv/bin/python
"""Differential test of flow.Canon: for synthetic pure functions the closed form of the returned expression, evaluated over the
parameters only, must equal the value the function returns.  (Runs the analyser's own transformation, not repository code.)"""
import ast
import itertools
import os
import sys

sys.path.insert(0, os.path.join(os.path.dirname(os.path.abspath(__file__)), '..'))
from sa.model import Module, Fn  # noqa
from sa.flow import Canon  # noqa

SRC = '''
def f1(a, b):
    x, y = a, b
    x = x + 1
    t = (x, y)
    u, v = t
    return u * 10 + v

def f2(a, b):
    rec = (a, b)
    rec += (a + b,)
    p, q, r = rec
    return r - p

def f3(a, b):
    row = (a, b, a * b, 7)
    x, y, z = row[1:]
    return x + y + z

def f4(a, b):
    s = 'k' + 'v'
    n = len(s)
    m = n
    n = m + a
    return n * b

def f5(a, b):
    w, h = (a, b)
    size = w, int(h * 2)
    return size[0] + size[1]

def f6(a, b):
    x = a
    if b:
        x = a + 1
    return x          # two reaching definitions: the name must stay

def f7(a, b):
    x = a
    if b:
        y = x + 1
        return y      # single reaching definition on this path
    x = 5
    return x * 2
'''


def main():
    m = Module('m.py', SRC)
    ns = {}
    exec(compile(SRC, 'm', 'exec'), ns)
    bad = n = 0
    for node in m.tree.body:
        if not isinstance(node, ast.FunctionDef):
            continue
        fn = Fn(None, 'm.py:' + node.name, m, node, None)
        cf = Canon(fn)
        for r in [x for x in ast.walk(node) if isinstance(x, ast.Return)]:
            form = cf.expr(r.value)
            names = {x.id for x in ast.walk(form) if isinstance(x, ast.Name)} - {'a', 'b', 'int', 'len'}
            text = ast.unparse(form)
            if node.name == 'f6':
                ok = names == {'x'}
                n += 1
                bad += 0 if ok else 1
                print('%s: %-40s (kept: two reaching definitions) %s' % (node.name, text, 'ok' if ok else 'WRONG'))
                continue
            if names:
                bad += 1
                print('%s: closed form %s still mentions locals %s' % (node.name, text, sorted(names)))
                continue
            code = compile(ast.Expression(body=ast.fix_missing_locations(ast.parse(text, mode='eval').body)), 'cf', 'eval')
            for a, b in itertools.product(range(0, 4), range(0, 4)):
                # only compare on inputs whose execution takes this return
                taken = trace_return(ns[node.name], a, b)
                if taken != r.lineno:
                    continue
                n += 1
                got = eval(code, {'a': a, 'b': b, 'int': int, 'len': len})
                want = ns[node.name](a, b)
                if got != want:
                    bad += 1
                    print('MISMATCH %s(%d,%d): closed form %s = %r, function returns %r' % (node.name, a, b, text, got, want))
            print('%s: line %d  %s' % (node.name, r.lineno, text))
    print('%d comparisons, %d mismatches' % (n, bad))
    return 1 if bad else 0


def trace_return(f, a, b):
    last = []

    def tr(frame, event, arg):
        if frame.f_code is f.__code__:
            if event == 'return':
                last.append(frame.f_lineno)
            return tr
        return None
    sys.settrace(tr)
    try:
        f(a, b)
    finally:
        sys.settrace(None)
    return last[-1] if last else None


if __name__ == '__main__':
    sys.exit(main())
