#!/venv/bin/python
"""Differential test of the normaliser (sa/inline.py + IfExp lowering): synthetic callers/helpers covering every inlining form are
normalised, both versions are executed on a grid of inputs and must agree on result, raised exception type and the trace of
observable events.  (This runs the *analyser's own* transformation, not repository code.)"""
import ast
import itertools
import os
import sys

sys.path.insert(0, os.path.join(os.path.dirname(os.path.abspath(__file__)), '..'))
from sa import inline  # noqa
from sa.model import _LowerIfExp  # noqa

SRC = '''
TRACE = []

def ev(x):
    TRACE.append(x)
    return x

class Err(Exception):
    pass

# ---- helpers (unknown -> inlined)
def h_pred(a, b):
    if a == 1:
        return b > 2
    if a == 2:
        return b < 2
    return False

def h_expr(a, b):
    return a * 10 + b

def h_stmt(a, b):
    t = a + b
    ev(('h_stmt', t))
    if t > 3:
        return t, a
    t2 = t * 2
    return t2, b

def h_none(a):
    if not a:
        return
    ev(('h_none', a))
    if a > 2:
        raise Err(a)

def h_search(xs, k):
    for x in xs:
        if x == k:
            return ('found', x)
    return None

def h_all(xs):
    for x in xs:
        if x is None:
            continue
        if not ev(x) > 0:
            return False
    return True

def h_any(xs):
    for x in xs:
        if x == 3:
            return True
    return False

def h_try(a):
    try:
        if a == 2:
            raise Err('two')
        return ev(('ok', a))
    except Err:
        return ev(('handled', a))

def h_with(a, cm):
    with cm:
        if a:
            return a + 1
        return 0

def h_kw(a, **kw):
    return dict(a=a, **kw)

def h_default(a, b=5, *, c=7):
    return a + b + c

def h_nested(a, b):
    return h_expr(a, b) + (1 if h_pred(a, b) else 0)

def h_shadow(a, b):
    x = a
    y = b
    x = x + y
    return x

def h_try_rest(a):
    try:
        if a == 1:
            return ev(('direct', a))
        if a == 2:
            raise Err('two')
        ev(('body-end', a))
    except Err:
        if a == 2:
            ev(('handled', a))
        else:
            raise
    ev(('rest', a))
    if a == 3:
        raise Err('three')       # must not be caught by the handler above
    return None

def h_try_ret(a):
    try:
        if a == 2:
            raise Err('two')
        return ev(('direct', a))
    except Err:
        ev(('handled', a))
    ev(('rest', a))
    return None

def h_try_norets(a):
    x = 0
    try:
        if a == 2:
            raise Err('two')
        x = ev(('body', a))
    except Err:
        ev(('handled', a))
    if a == 3:
        return 'three'
    return x

def h_rng(a, b):
    xs = a + 1
    if b > 2:
        ys = b * 2
    else:
        ys = xs - b
    return xs, ys

def h_closure(xs, k):
    total = 0
    def add(x, k2=k):
        return x + k2 + total
    out = []
    for x in xs:
        out.append(add(x))
    return out

def h_inout(q, k):
    if k > 2:
        q = q + 1
    r = q * 2
    return q, r

def h_mut(xs):
    acc = []
    for x in xs:
        acc.append(ev(x) * 2)
    n = len(acc)
    return acc, n

def h_tmp(d, k):
    p = d.get(k, {})
    return p.get('x', False) is True

def h_pure2(x, y, lim):
    limit = lim + 1
    xo = x >= limit
    return xo or y >= limit

def h_run(x, y):
    first = ev(('first', x))
    second = ev(('second', y))
    return '%s-%s' % (first, second)

def h_run_swapped(x, y):
    first = ev(('first', x))
    second = ev(('second', y))
    return '%s-%s' % (second, first)

def h_stmtpred(x):
    t = ev(('pred', x))
    u = t[1] * 2
    return u > 2

def h_uses_t(a):
    t = a * 3
    ev(('t', t))
    return t + 1

def h_none_or(a, b):
    if a <= 1:
        return None
    s = set()
    s.add(a)
    if len(s) != 1:
        return None
    return (a, b)

TABLE = (('a', 1, 10), ('b', 2, 20), ('c', 3, 30))
DISPATCH = {'nw': ('ul', 'nw'), 'sw': ('ll', 'sw', None)}

class CM:
    def __enter__(self):
        ev('enter')
        return self
    def __exit__(self, *a):
        ev('exit')
        return False

class K:
    def __init__(self, v):
        self.v = v
        self.grid = self

    def _m(self, a):
        if a > self.v:
            return 'big'
        return 'small'

    def _set(self, a):
        self.v = a
        return self.v

    def caller_m(self, a):
        r = self._m(a)
        return r, self.grid._m(a + 1)

    def _reset_then(self, a):
        self.v = 0
        return a

    def caller_reset(self, a):
        return self._reset_then(self.v + a), self.v

    def caller_set(self, a):
        old = self.v
        x = self._set(a + old)
        return old, x, self.v

# ---- callers (known)
def c_pred(a, b):
    if not h_pred(a, b):
        return 'no'
    return 'yes'

def c_pred_elif(a, b):
    if a == 0:
        return 'zero'
    elif h_pred(a, b):
        return 'yes'
    else:
        return 'no'

def c_expr(a, b):
    x = 3
    y = h_expr(a, b) + h_expr(b, a)
    return x, y

def c_stmt(a, b):
    t = 100
    x, y = h_stmt(a, b)
    return t, x, y

def c_stmt_ret(a, b):
    return h_stmt(a, b)

def c_none(a):
    ev('before')
    h_none(a)
    ev('after')
    return a

def c_search(k):
    r = h_search([1, 2, 3], k)
    if r is None:
        return 'none'
    return r

def c_all(xs):
    if not h_all(xs):
        return 'not all'
    return 'all'

def c_any(xs):
    return 'any' if h_any(xs) else 'none'

def c_try(a):
    return h_try(a)

def c_with(a):
    r = h_with(a, CM())
    ev('after')
    return r

def c_kw(a):
    return h_kw(a, b=2, c=a)

def c_default(a):
    return h_default(a), h_default(a, 1), h_default(a, c=1)

def c_nested(a, b):
    v = h_nested(a, b)
    return v

def c_shadow(a, b):
    x = 1000
    y = h_shadow(a, b)
    return x, y

def c_cond(a, b):
    return a and h_expr(a, b)

def c_cond2(a, b):
    return a and h_stmt(a, b)

def c_reset(v, a):
    return K(v).caller_reset(a)

def c_while(a):
    n = 0
    while h_pred(1, a + n) and n < 3:
        n += 1
    return n

def c_rng(a, b):
    xs, ys = h_rng(a, b)
    return xs - ys

def c_rng_swapped(a, b):
    ys, xs = h_rng(a, b)
    return xs * 10 + ys

def c_rng_self(a, b):
    ys = b
    xs, ys = h_rng(a, ys)
    return xs * 10 + ys

def c_closure(a, b):
    add = 100
    x = 5
    r = h_closure([a, b, x], a + b)
    return add, x, r

def c_try_rest(a):
    r = h_try_rest(a)
    ev('after')
    return r

def c_try_ret(a):
    r = h_try_ret(a)
    ev('after')
    return r

def c_try_norets(a):
    r = h_try_norets(a)
    ev('after')
    return r

def c_ifexp(a, b):
    v = h_expr(a, b) if a else h_expr(b, a)
    return v

def c_in_loop(xs):
    out = []
    for x in xs:
        p, q = h_stmt(x, 1)
        out.append((p, q))
    return out

def c_inout(q, k):
    q, r = h_inout(q, k)
    return q + r

def c_mut(a, b):
    acc, n = h_mut([a, b, a])
    acc.append(n)
    return acc

def c_tmp(a, b):
    d = {1: {'x': True}, 2: {'x': 1}, 3: {}}
    if a > 0 and h_tmp(d, b):
        return 'yes'
    return 'no'

def c_pure2(a, b):
    if a and h_pure2(a, b, 2):
        return ev('out')
    return 'in'

def c_run(a, b):
    return [h_run(x, b) for x in [a, b, 3]]

def c_run_swapped(a, b):
    return [h_run_swapped(x, b) for x in [a, b, 3]]

def c_quant(a, b):
    return all(h_stmtpred(x) for x in [a, b, 3] if x != 4)

def c_quant_any(a, b):
    return any(h_stmtpred(x) for x in [a, b])

def c_comp(a, b):
    return [h_uses_t(v) for v in [a, b] if v]

def c_boolassign(a, b):
    r = bool(a) and h_stmtpred(b)
    return r

def c_deadname(a, b):
    t = a + 100
    ev(('caller-t', t))
    x = h_uses_t(b)
    return x

def c_livename(a, b):
    t = a + 100
    x = h_uses_t(b)
    return x, t

def c_sentinel(a, b):
    r = h_none_or(a, b)
    if r is not None:
        return ev(('hit', r))
    return ev('miss')

def c_flag(a, b):
    needs = False
    if a:
        q = b * 2
        needs = not q > 4
    if needs:
        return ev('sub')
    return ev('full')

def c_flag1(a, b):
    skip = a and b > 1
    if skip:
        a = a + 1
    return a

def c_flags2(a, b):
    lo = a < 2
    hi = b > 3
    if not (lo or hi):
        return 'mid'
    return 'edge'

def c_table(k):
    for name, v, w in TABLE:
        if k == v:
            return name, w
    raise Err('unknown')

def c_counter(a, b):
    out = []
    idx = 0
    for r in range(a):
        base = r * 10
        for c in range(b):
            out.append((idx, base + c))
            idx += 1
    return out

def c_counter1(xs):
    out = []
    i = 0
    for x in xs:
        out.append((i, x))
        i += 1
    return out

def c_lambda(a, b):
    skip = lambda t: t == a
    return [x for x in [1, 2, 3, 4] if not skip(x)] + [skip(b)]

def c_plain(a, b):
    a = a + b
    b = b * 2
    return a, b

def c_withifexp(a):
    with (CM() if a > 2 else CM()):
        ev(('body', a))
    return a

class Q:
    def __init__(self, a):
        self.size = (a, a + 1)
        self.inner = self
        self.count = 0

    def bump(self):
        self.count += 1
        return self.count

def c_alias(q, a):
    size = q.inner.size            # never assigned outside a constructor: the alias is the chain
    n = q.count                    # assigned in bump(): the alias keeps the old value
    q.bump()
    return size[0] + a, size[1], n, q.count

def h_box(bbox, lim):
    x0, y0, x1, y1 = bbox
    return (max(x0, lim), max(y0, lim), min(x1, lim + 2), min(y1, lim + 2))

def c_copy(a, b):
    x0 = a
    if b > 2:
        y0 = b
    else:
        y0 = a + b
    x1, y1 = x0 + 2, y0 + 2
    return h_box((x0, y0, x1, y1), b)

def c_copy_later(a, b):
    s = a
    t = s                         # s is re-bound afterwards: t keeps the old value
    s = s + b
    return t, s

def c_copy_loop(a, b):
    out = []
    s = a
    for i in range(3):
        t = s                     # the store to s follows in the loop body: not a copy
        out.append(t)
        s = s + b
    u = s
    out.append(u)
    return out

def c_copy_swap(a, b):
    p, q = a, b
    p, q = q, p
    return p, q

def c_next(a, b):
    first = next((ev(('hit', x)) for x in [a, b, 3, 4] if x > 2 if x != b), None)
    other = next((x for x in [a, b] if ev(('test', x)) > 3), a)
    return first, other

def c_next_ret(a, b):
    cands = (a + s for s in (0, 1, 2))
    return next((ev(('hit', x)) for x in cands if x > b), None)

def h_takefirst(items):
    items = items[:]
    first = [items.pop(0)]
    return first, items

def c_roundtrip(a, b):
    items = [a, b, 3]
    first, items = h_takefirst(items)
    while items:
        first.append(items.pop(0) + 1)
    return first, items

def c_roundtrip_rebound(a, b):
    s = [a, b]
    t = s
    t = t + [1]
    s = t
    s = s + [2]            # s is re-bound after the copy back: t keeps the shorter list
    return s, t

# ---- round 5 forms
def h_frame(t, build, flag=False):
    if t.get('loc') is None:
        x, y = t['c']
        t['loc'] = build(x, y)
    if flag:
        ev(('dir', t['loc']))
    return t['loc']

def c_callback(a, b):
    t = {'c': (a, b)}
    def build_loc(x, y):
        parts = (ev(('p', x)), y, a)
        return '%s/%s/%s' % parts
    return h_frame(t, build_loc, flag=b > 2)

from collections import namedtuple
Rec = namedtuple('Rec', ['box', 'outside', 'partial'])

def h_rec(cov, a):
    if not cov:
        return Rec(box=None, outside=False, partial=False)
    box = ev(('box', a))
    if a > 3:
        return Rec(box, outside=True, partial=False)
    if a > 1:
        return Rec(box, outside=False, partial=True)
    return Rec(box, outside=False, partial=False)

def c_record(a, b):
    lim = h_rec(b, a)
    if lim.outside:
        return 'empty'
    ev('load')
    if lim.partial:
        return ('masked', lim.box)
    return 'plain'

def h_checked(k, v, a):
    if v == a:
        return v
    ok = not v or v == 1
    if not ok:
        raise Err(k)
    return 'default'

def c_dictcomp(a, b):
    d = {'p': a, 'q': b}
    return {k: h_checked(k, v, 2) for k, v in d.items()}

def h_out(x, y, size):
    xl = size[0]
    yl = size[1]
    return x < 0 or y < 0 or x >= xl or y >= yl

def c_yield_g(a, b):
    for y in (a - 1, a):
        for x in (b - 1, b):
            yield None if h_out(x, y, (3, 3)) else (x, y)

def c_yield(a, b):
    return list(c_yield_g(a, b))

def c_dupe(a, b):
    sizes = [(2, 2), (3, 3), (4, 4)]
    bad = a > 3
    if bad or h_out(a, b, sizes[a % 3]):
        return None
    return a, b

_NO = object()

def h_entry(x, off=_NO):
    if off is _NO:
        e = 'empty'
    else:
        e = ('off', off)
    ev(('write', x, e))

def c_with2(a, b):
    with CM(), CM() as r:
        h_entry(a)
        h_entry(b, off=a)
    return type(r).__name__

def c_named_cond(a, b):
    has = a is not None and a > 1
    return has and ev(b) > 2

def c_methval(a, b):
    s = 'x%dy%d' % (a, b)
    f = s.startswith
    return f('x1')

def h_join(*parts):
    return '/'.join(str(p) for p in parts)

def c_star(a, b):
    parts = (ev(a), ev(b), 3)
    return h_join(*parts)

def c_starcall(a, b):
    call_args = (ev(a), ev(b))
    return h_expr(*call_args)

def c_starcall_kw(a, b):
    call_args = (ev(('x', a)), b)
    r = h_kw(*call_args)
    return r

def c_methexpr(a, b):
    out = []
    add = out.append
    add(ev(a))
    out.append(b)
    return out

def c_methval_call(a, b):
    fmt = ('%s-' + str(ev(a))).__mod__
    return fmt(ev(b))

def h_gen_skip(xs, lim):
    for x in xs:
        if x < lim:
            yield x
        else:
            ev(('skipped', x))

def c_gen_continue(a, b):
    out = []
    for v in h_gen_skip([a, b, 1, 4], 3):
        ev(('seen', v))
        if v == b:
            continue
        out.append(ev(('kept', v)))
        ev(('done', v))
    return out

def h_gen_after(xs):
    for x in xs:
        yield x
        ev(('after', x))

def c_gen_continue_after(a, b):
    out = []
    for v in h_gen_after([a, b]):
        ev(('seen', v))
        if v == b:
            continue
        out.append(v)
        ev(('done', v))
    return out

def h_split(value, span):
    no, rel = divmod(value, span)
    return no * span, rel

def c_divmod(a, b):
    origin, _ = h_split(a * 7 - 9, b + 1)
    _, rel = h_split(a * 7 - 9, b + 1)
    return origin, rel

import contextlib

@contextlib.contextmanager
def h_ctx(name, opener):
    ev(('before', name))
    with CM():
        with opener() as inner:
            yield (name, type(inner).__name__)
    ev(('after', name))

def c_ctxmgr(a, b):
    with h_ctx(a, lambda: CM()) as got:
        ev(('body', got))
        if b > 2:
            raise Err(b)
    return got

def c_meth(v, a):
    return K(v).caller_m(a)

def c_set(v, a):
    return K(v).caller_set(a)
'''

KNOWN_PREFIX = ('c_', 'ev', 'Err', 'CM', 'K.__', 'K.caller', 'Q.')


def normalised_source():
    from sa import simplify
    simplify.MUTABLE_ATTRS = simplify.mutable_attrs_of([SRC])
    tree = ast.parse(SRC)
    known = set()
    for qual, node, cls, _ in inline.function_index(tree):
        if qual.startswith(KNOWN_PREFIX):
            known.add('m.py:' + qual)
    changed, report = inline.normalise({'m.py': tree}, known=known, sources={'m.py': SRC})
    # closures that the reference tree does not have, called once: written out at their call (as in Repo._normalise)
    loc = inline.inline_local_closures({'m.py': changed['m.py']}, {'m.py': SRC}, set())
    if loc:
        changed['m.py'] = loc['m.py']
        report.append(('inlined', 'local closure', '-', ''))
    return ast.unparse(changed['m.py']), report


def run(ns, name, args):
    ns['TRACE'].clear()
    if name == 'c_alias':
        args = (ns['Q'](args[1]), args[1])
    try:
        r = ('ok', ns[name](*args))
    except Exception as e:       # noqa
        r = ('exc', type(e).__name__, str(e))
    return r, list(ns['TRACE'])


def main():
    src2, report = normalised_source()
    left = [r for r in report if r[0] == 'left']
    ns1, ns2 = {}, {}
    exec(compile(SRC, 'orig', 'exec'), ns1)
    exec(compile(src2, 'norm', 'exec'), ns2)
    vals = [0, 1, 2, 3, 4]
    cases = {
        'c_pred': itertools.product(vals, vals), 'c_pred_elif': itertools.product(vals, vals), 'c_expr': itertools.product(vals, vals),
        'c_stmt': itertools.product(vals, vals), 'c_stmt_ret': itertools.product(vals, vals), 'c_none': [(v,) for v in vals],
        'c_search': [(v,) for v in vals], 'c_all': [([1, None, 2],), ([1, 0, 2],), ([],), ([None],)],
        'c_any': [([1, 2],), ([3],), ([],)], 'c_try': [(v,) for v in vals], 'c_with': [(v,) for v in vals], 'c_kw': [(v,) for v in vals],
        'c_default': [(v,) for v in vals], 'c_nested': itertools.product(vals, vals), 'c_shadow': itertools.product(vals, vals),
        'c_cond': itertools.product(vals, vals), 'c_ifexp': itertools.product(vals, vals), 'c_in_loop': [([1, 2, 3, 4],), ([],)],
        'c_meth': itertools.product(vals, vals), 'c_set': itertools.product(vals, vals), 'c_cond2': itertools.product(vals, vals),
        'c_reset': itertools.product(vals, vals), 'c_while': [(v,) for v in vals], 'c_rng': itertools.product(vals, vals),
        'c_inout': itertools.product(vals, vals), 'c_mut': itertools.product(vals, vals), 'c_tmp': itertools.product(vals, vals),
        'c_pure2': itertools.product(vals, vals), 'c_quant': itertools.product(vals, vals), 'c_quant_any': itertools.product(vals, vals),
        'c_comp': itertools.product(vals, vals), 'c_boolassign': itertools.product(vals, vals), 'c_deadname': itertools.product(vals, vals),
        'c_livename': itertools.product(vals, vals), 'c_sentinel': itertools.product(vals, vals), 'c_flag': itertools.product(vals, vals),
        'c_flag1': itertools.product(vals, vals), 'c_flags2': itertools.product(vals, vals), 'c_table': [(v,) for v in vals],
        'c_counter': itertools.product(vals, vals), 'c_counter1': [([],), ([5],), ([5, 6, 7],)], 'c_lambda': itertools.product(vals, vals),
        'c_plain': itertools.product(vals, vals), 'c_withifexp': [(v,) for v in vals],
        'c_alias': [(None, v) for v in vals],
        'c_copy': itertools.product(vals, vals), 'c_copy_later': itertools.product(vals, vals), 'c_copy_loop': itertools.product(vals, vals),
        'c_copy_swap': itertools.product(vals, vals), 'c_run': itertools.product(vals, vals), 'c_next': itertools.product(vals, vals), 'c_next_ret': itertools.product(vals, vals), 'c_roundtrip': itertools.product(vals, vals), 'c_roundtrip_rebound': itertools.product(vals, vals), 'c_run_swapped': itertools.product(vals, vals),
        'c_callback': itertools.product(vals, vals), 'c_record': itertools.product(vals, vals), 'c_dictcomp': itertools.product(vals, vals),
        'c_yield': itertools.product(vals, vals), 'c_dupe': itertools.product(vals, vals), 'c_with2': itertools.product(vals, vals),
        'c_named_cond': itertools.product([None] + vals, vals), 'c_methval': itertools.product(vals, vals), 'c_star': itertools.product(vals, vals),
        'c_starcall': itertools.product(vals, vals), 'c_starcall_kw': itertools.product(vals, vals), 'c_methexpr': itertools.product(vals, vals),
        'c_methval_call': itertools.product(vals, vals),
        'c_gen_continue': itertools.product(vals, vals), 'c_gen_continue_after': itertools.product(vals, vals),
        'c_divmod': itertools.product(vals, vals),
        'c_ctxmgr': itertools.product(vals, vals),
        'c_rng_swapped': itertools.product(vals, vals), 'c_closure': itertools.product(vals, vals), 'c_try_rest': [(v,) for v in vals], 'c_try_ret': [(v,) for v in vals], 'c_try_norets': [(v,) for v in vals], 'c_rng_self': itertools.product(vals, vals),
    }
    bad = 0
    n = 0
    for name, argl in cases.items():
        for args in argl:
            n += 1
            a, b = run(ns1, name, args), run(ns2, name, args)
            if a != b:
                bad += 1
                print('MISMATCH %s%r: original %r, normalised %r' % (name, tuple(args), a, b))
    inl = sorted({r[1] for r in report if r[0] == 'inlined'})
    helpers_left = sorted(k for k in ns2 if k.startswith('h_'))
    print('inlined: %s' % ', '.join(inl))
    print('not inlined: %s' % ['%s into %s: %s' % (r[1], r[2], r[3]) for r in left])
    print('helpers still defined after normalisation: %s' % helpers_left)
    print('%d executions compared, %d mismatches' % (n, bad))
    # every form must actually have been exercised
    want = {'h_pred', 'h_expr', 'h_stmt', 'h_none', 'h_search', 'h_all', 'h_any', 'h_try', 'h_with', 'h_kw', 'h_default', 'h_nested', 'h_shadow',
            'K._m', 'K._set', 'K._reset_then', 'h_rng', 'h_closure', 'h_try_ret', 'h_try_norets', 'h_inout', 'h_mut', 'h_tmp', 'h_pure2',
            'h_stmtpred', 'h_uses_t', 'h_none_or', 'h_frame', 'h_rec', 'h_checked', 'h_out', 'h_entry', 'local closure', 'h_ctx', 'h_gen_skip', 'h_split'}
    missing = want - set(inl)
    if missing:
        print('NOT EXERCISED: %s' % sorted(missing))
    return 1 if bad or missing else 0


if __name__ == '__main__':
    sys.exit(main())
