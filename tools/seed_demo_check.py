#!/venv/bin/python
"""seed_demo_check.py <id> : does the demonstration of a stored seeded change still separate the changed tree from /repo?
A scratch worktree of /repo HEAD under /tmp gets the patch; demo.py must fail there and pass on /repo.  Prints one line."""
import json
import os
import subprocess
import sys

sid = sys.argv[1]
d = '/verif/seeded/%s' % sid
wt = '/tmp/sdc_%s' % sid


def sh(c, **kw):
    return subprocess.run(c, shell=True, capture_output=True, text=True, **kw)


sh('git -C /repo worktree remove --force %s' % wt)
r = sh('git -C /repo worktree add -q --detach %s HEAD' % wt)
try:
    r = sh('git -C %s apply %s/patch.diff' % (wt, d))
    if r.returncode:
        print(sid, 'PATCH-DOES-NOT-APPLY')
        sys.exit(0)
    demo = [f for f in ('demo.py', 'demo.sh') if os.path.exists(os.path.join(d, f))]
    if not demo:
        print(sid, 'NO-DEMO')
        sys.exit(0)
    cmd = '/venv/bin/python %s/demo.py' % d if demo[0] == 'demo.py' else 'sh %s/demo.sh' % d
    a = sh('cd /tmp && PYTHONPATH=%s timeout 900 %s' % (wt, cmd))
    b = sh('cd /tmp && PYTHONPATH=/repo timeout 900 %s' % cmd)
    verdict = 'OK' if a.returncode != 0 and b.returncode == 0 else 'CHANGED-TREE-PASSES' if a.returncode == 0 else 'UNCHANGED-TREE-FAILS'
    print(sid, verdict, 'changed=%d unchanged=%d' % (a.returncode, b.returncode))
finally:
    sh('git -C /repo worktree remove --force %s' % wt)
