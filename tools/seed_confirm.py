#!/venv/bin/python
"""For every kept seeded change: git -C /repo apply <patch>; run the quick checks of the property it breaks and of the
properties that report it; git -C /repo checkout -- .   Records exit codes in seeded/<id>/meta.json (checks_on_repo)."""
import json, os, subprocess, sys, glob
def sh(c): return subprocess.run(c, shell=True, capture_output=True, text=True)
assert sh('git -C /repo status --porcelain').stdout.strip() == '', '/repo not clean'
only = sys.argv[1:]
summary = []
for d in sorted(glob.glob('/verif/seeded/C*/')):
    sid = os.path.basename(d.rstrip('/'))
    if only and sid not in only:
        continue
    meta = json.load(open(d + 'meta.json'))
    props = sorted({meta['property']} | {k[:3] for k in meta.get('reported_by', []) if k[:1] == 'C'})
    r = sh('git -C /repo apply %spatch.diff' % d)
    res = {}
    try:
        if r.returncode:
            res = {'error': r.stderr[-200:]}
        else:
            for p in props:
                c = sh('/venv/bin/python /verif/sa/check.py %s --no-evidence' % p)
                viol = [l.strip()[:200] for l in c.stdout.splitlines() if l.startswith('  C')]
                res[p] = {'exit': c.returncode, 'violation_line': any(l.startswith('VIOLATION property=%s' % p) for l in c.stdout.splitlines()), 'reported': viol[:5]}
    finally:
        sh('git -C /repo checkout -- .')
        sh('git -C /repo clean -fdq mapproxy')
    meta['checks_on_repo'] = res
    meta['detected'] = any(v.get('exit') == 1 for v in res.values() if isinstance(v, dict))
    json.dump(meta, open(d + 'meta.json', 'w'), indent=1)
    summary.append((sid, meta['detected'], {p: v.get('exit') for p, v in res.items() if isinstance(v, dict)}))
    print(sid, 'DETECTED' if meta['detected'] else 'missed', summary[-1][2])
assert sh('git -C /repo status --porcelain').stdout.strip() == '', '/repo not clean after run'
print(sum(1 for s in summary if s[1]), 'of', len(summary), 'detected')
