#!/venv/bin/python
"""Write sa/reference_locals.json: fingerprints of the local variables of every function of the reference tree (see sa/localnames.py).
Regenerate only when /repo's reference tree legitimately changes (a repair)."""
import json
import os
import sys
sys.path.insert(0, os.path.join(os.path.dirname(os.path.abspath(__file__)), '..'))
from sa.localnames import build_reference, REF_FILE  # noqa
root = sys.argv[1] if len(sys.argv) > 1 else '/repo'
ref = build_reference(root)
with open(REF_FILE, 'w') as fh:
    json.dump(ref, fh, indent=0, sort_keys=True)
print(len(ref['files']), 'files,', len(ref['functions']), 'functions with locals')
